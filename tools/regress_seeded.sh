#!/bin/bash
# tools/regress_seeded.sh [id...] - applies every kept seeded change to a repository (which
# must be clean), runs the checks recorded as catching it (quick tier), restores it, and
# reports. REGRESS_REPO (default /repo) names the repository: a scratch worktree of /repo lets
# this run beside other work (the checks are pointed at it through VERIF_REPO).
export GOFLAGS=-mod=mod GOPROXY=off GOSUMDB=off
R=${REGRESS_REPO:-/repo}
export VERIF_REPO=$R
cd /verif
[ -z "$(git -C $R status --porcelain)" ] || { echo "$R is dirty"; exit 2; }
IDS="$@"; [ -n "$IDS" ] || IDS=$(ls seeded)
for id in $IDS; do
  d=seeded/$id
  patch=$d/patch.diff; [ -f $d/patch-current-tree.diff ] && patch=$d/patch-current-tree.diff
  props=$(python3 -c "import json;print(' '.join(json.load(open('$d/meta.json')).get('caught_by',[])))")
  if [ -z "$props" ]; then echo "$id: recorded as not caught"; continue; fi
  if ! git -C $R apply --3way $PWD/$patch >/dev/null 2>&1; then git -C $R reset -q --hard HEAD; echo "$id: patch no longer applies (repo changed underneath it)"; continue; fi
  git -C $R reset -q
  if ! (cd $R && go build ./... >/dev/null 2>&1); then git -C $R reset -q --hard HEAD; echo "$id: does not build on the current tree"; continue; fi
  res=""
  for p in $props; do
    ./check $p quick >/var/tmp/regress_${id}_$p.log 2>&1; rc=$?
    case $rc in 1) res="$res $p:CAUGHT";; 0) res="$res $p:missed";; *) res="$res $p:trouble($rc)";; esac
  done
  git -C $R reset -q --hard HEAD
  echo "$id:$res"
done
