#!/bin/bash
# tools/regress_seeded.sh [id...] - applies every kept seeded change to a repository (which
# must be clean), runs the checks recorded as catching it (quick tier), restores it, and
# reports. REGRESS_REPO (default /repo) names the repository: a scratch worktree of /repo lets
# this run beside other work (the checks are pointed at it through VERIF_REPO).
export GOFLAGS=-mod=mod GOPROXY=off GOSUMDB=off
R=${REGRESS_REPO:-/repo}
export VERIF_REPO=$R
cd /verif
[ -z "$(git -C $R status --porcelain)" ] || { echo "$R is dirty"; exit 2; }
IDS="$@"; [ -n "$IDS" ] || IDS=$(ls seeded | grep -v REGRESSION)
for id in $IDS; do
  d=seeded/$id
  patch=$d/patch.diff; [ -f $d/patch-current-tree.diff ] && patch=$d/patch-current-tree.diff
  props=$(python3 -c "import json;print(' '.join(json.load(open('$d/meta.json')).get('caught_by',[])))")
  if [ -z "$props" ]; then echo "$id: recorded as not caught"; continue; fi
  if ! git -C $R apply --3way $PWD/$patch >/dev/null 2>&1; then git -C $R reset -q --hard HEAD; echo "$id: patch no longer applies (repo changed underneath it)"; continue; fi
  git -C $R reset -q
  if ! (cd $R && go build ./... >/dev/null 2>&1); then git -C $R reset -q --hard HEAD; echo "$id: does not build on the current tree"; continue; fi
  res=""
  for p in $props; do
    ./check $p quick >/var/tmp/regress_${id}_$p.log 2>&1; rc=$?
    case $rc in 1) res="$res $p:CAUGHT";; 0) res="$res $p:missed";; *) res="$res $p:trouble($rc)";; esac
  done
  if ! echo "$res" | grep -q CAUGHT; then
    # does the change still break anything? its own demonstration decides
    demo=$(ls $d/*_test.go.txt 2>/dev/null | head -1)
    if [ -n "$demo" ]; then
      pkg=$(grep -m1 '^package ' $demo | awk '{print $2}' | sed 's/_test$//')
      pat=$(grep -o 'func Test[A-Za-z0-9_]*' $demo | sed 's/func //' | paste -sd'|')
      if [ -d $R/src/$pkg ]; then
        cp $demo $R/src/$pkg/zz_regress_demo_test.go
        if (cd $R && go test -vet=off -count=1 -run "$pat" ./src/$pkg/ >/var/tmp/regress_demo_$id.log 2>&1); then
          res="$res (its demonstration passes on the current tree: a later repair made the code robust against this change)"
        else
          res="$res (its demonstration still fails: NOT CAUGHT ANY MORE)"
        fi
        rm -f $R/src/$pkg/zz_regress_demo_test.go
      fi
    fi
  fi
  git -C $R reset -q --hard HEAD
  echo "$id:$res"
done
