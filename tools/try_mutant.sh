#!/bin/bash
# tools/try_mutant.sh <seeded-dir> <wt> <prop> [more props...]
# 1. confirm the seeded change in the scratch worktree <wt> (build, suite, demo fails with / passes without)
# 2. apply it to /repo, run the given checks (quick), undo it
set -u
D="$1"; WT="$2"; shift 2
export GOFLAGS=-mod=mod GOPROXY=off GOSUMDB=off
cd "$WT" || exit 2
git checkout -q -- src 2>/dev/null; rm -f src/*/zz_seeded_demo_test.go
PKG=$(python3 - "$D" <<'PY'
import json,sys,re,os
d=sys.argv[1]
m=json.load(open(d+'/meta.json'))
demo=[f for f in os.listdir(d) if f.endswith('_test.go') or f.endswith('_test.go.txt')]
pkg='src/app'
if demo:
    src=open(d+'/'+demo[0]).read()
    mm=re.search(r'^package (\w+)',src,re.M)
    if mm:
        name=mm.group(1).replace('_test','')
        for cand in ['src/'+name]:
            if os.path.isdir(cand): pkg=cand
print(pkg, demo[0] if demo else '')
PY
)
set -- $PKG "$@"; PKGDIR=$1; DEMO=$2; shift 2
echo "[mutant $D] package=$PKGDIR demo=$DEMO"
RUNPAT=$(grep -o 'func Test[A-Za-z0-9_]*' "$D/$DEMO" | sed 's/func //' | paste -sd'|')
# clean: demo passes
cp "$D/$DEMO" "$PKGDIR/zz_seeded_demo_test.go"
go test -vet=off -count=1 -run "$RUNPAT" ./$PKGDIR/ >/tmp/mut_clean.log 2>&1; CLEAN=$?
git apply "$D/patch.diff" || { echo "PATCH-DOES-NOT-APPLY in worktree"; rm -f $PKGDIR/zz_seeded_demo_test.go; exit 3; }
go build ./... >/tmp/mut_build.log 2>&1; BUILD=$?
go test -vet=off -count=1 -run "$RUNPAT" ./$PKGDIR/ >/tmp/mut_demo.log 2>&1; DEMOFAIL=$?
rm -f $PKGDIR/zz_seeded_demo_test.go
go test -vet=off -count=1 ./... >/tmp/mut_suite.log 2>&1; SUITE=$?
git checkout -q -- src
echo "[mutant $D] demo-on-clean exit=$CLEAN (want 0)  build=$BUILD (want 0)  demo-with-patch exit=$DEMOFAIL (want !=0)  suite-with-patch exit=$SUITE (want 0)"
if [ $CLEAN -ne 0 ] || [ $BUILD -ne 0 ] || [ $DEMOFAIL -eq 0 ] || [ $SUITE -ne 0 ]; then echo "[mutant $D] NOT CONFIRMED"; exit 4; fi
# apply to /repo
cd /repo || exit 2
if [ -n "$(git status --porcelain)" ]; then echo "/repo is dirty"; exit 2; fi
git apply --3way "$D/patch.diff" >/tmp/mut_apply.log 2>&1 || { echo "[mutant $D] does not apply to current /repo:"; tail -5 /tmp/mut_apply.log; git reset -q --hard HEAD; exit 5; }
git reset -q
go build ./... || { echo "[mutant $D] does not build on current /repo"; git checkout -q -- .; exit 5; }
cd /verif
for P in "$@"; do
  for SEED in ${MUT_SEEDS:-20260930}; do
    VERIF_SEED=$SEED ./check $P quick > /tmp/mut_check_$P.log 2>&1; RC=$?
    echo "[mutant $D] check $P seed=$SEED exit=$RC $(grep -c '^VIOLATION' /tmp/mut_check_$P.log) violation lines; $(grep '^property=' /tmp/mut_check_$P.log | tail -1)"
    grep -A1 '^VIOLATION' /tmp/mut_check_$P.log | grep class | head -4 | cut -c1-260
  done
done
git -C /repo checkout -q -- .
echo "[mutant $D] /repo restored: $(git -C /repo status --porcelain | wc -l) dirty files"
