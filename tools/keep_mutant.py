#!/usr/bin/env python3
"""tools/keep_mutant.py <src-dir> <id> <caught_by> <notes>  - stores a confirmed seeded change under /verif/seeded/<id>/"""
import json, os, shutil, sys
src, mid, caught, notes = sys.argv[1:5]
dst = os.path.join('/verif/seeded', mid)
os.makedirs(dst, exist_ok=True)
for f in os.listdir(src):
    if f.endswith('.go') or f.endswith('.go.txt') or f == 'patch.diff' or f.endswith('.sh'):
        shutil.copy(os.path.join(src, f), os.path.join(dst, f if not (f.endswith('_test.go') or f.endswith('_test.go.txt')) else 'demo_test.go.txt'))
m = json.load(open(os.path.join(src, 'meta.json')))
m['confirmed'] = "tools/try_mutant.sh: in a scratch worktree of /repo the patch applies, `go build ./...` and the unedited suite (`go test -vet=off -count=1 ./...`) pass with it, the demonstration fails with it and passes without it"
m['caught_by'] = [c for c in caught.split(',') if c]
m['result'] = notes
m['demo_file'] = 'demo_test.go.txt (copy into the package directory named in "demo" as *_test.go)'
json.dump(m, open(os.path.join(dst, 'meta.json'), 'w'), indent=1)
print("kept", dst)
