#!/usr/bin/env python3
import json, sys
r = json.load(open(sys.argv[1]))
sc = r['scenario']
print("PROP", r['property'], "seed", r['seed'], "arm", sc.get('arm'), "class", r['expect']['class'], "disc", r['expect']['discriminator'])
print("MSG", r['expect']['message'])
for p in sc['project']['procs']:
    d = {k: v for k, v in p.items() if k not in ('name', 'token') and v}
    print("  proc", p['name'], json.dumps(d))
for tok, ts in sorted(sc['scripts'].items()):
    for i, l in enumerate(ts['launches']):
        d = {k: v for k, v in l.items() if v not in (0, None, [], '', False)}
        print("  script", tok, i, json.dumps(d))
for c in sc.get('clients') or []:
    print("  client", c['name'], json.dumps(c['ops']))
print("  opts", {k: sc.get(k) for k in ('ordered_shutdown', 'run_for_ms', 'end_shutdown', 'iter_mode', 'sweep_step', 'strategy')})
n = int(sys.argv[2]) if len(sys.argv) > 2 else 60
print("\n".join(r.get('trace_tail', [])[-n:]))
