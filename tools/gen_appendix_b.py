#!/usr/bin/env python3
"""Rewrites the table of Appendix B in DESIGN.md from seeded/*/meta.json."""
import json, glob, os, re
V = os.path.dirname(os.path.dirname(os.path.abspath(__file__)))
rows = []
n = 0
for d in sorted(glob.glob(os.path.join(V, 'seeded', '*'))):
    if not os.path.isdir(d):
        continue
    m = json.load(open(os.path.join(d, 'meta.json')))
    n += 1
    summ = ' '.join(m.get('summary', '').split())
    if len(summ) > 230:
        summ = summ[:227] + '…'
    res = ' '.join(m.get('result', '').split())
    caught = ', '.join(m.get('caught_by', [])) or '**none**'
    rows.append("| %s | %s | %s | %s |" % (os.path.basename(d), summ.replace('|', '/'), caught, res.replace('|', '/')))
p = os.path.join(V, 'DESIGN.md')
s = open(p).read()
head = "| id | change (as described by its author) | caught by | result |\n|---|---|---|---|\n"
i = s.index(head)
s = s[:i] + head + "\n".join(rows) + "\n"
s = re.sub(r"\n\d+ changes, three per applicable property,", "\n%d changes (three per applicable property, and a second wave of three each for C01-C05 on the repaired tree)," % n, s)
s = re.sub(r"`seeded/` holds \d+ property-breaking changes", "`seeded/` holds %d property-breaking changes" % n, s)
open(p, 'w').write(s)
print(n, "rows")
