#!/usr/bin/env python3
"""Regenerates MANIFEST.json from the table below (kept here so that the manifest stays valid)."""
import json, os
V = os.path.dirname(os.path.dirname(os.path.abspath(__file__)))
props = [json.loads(l) for l in open(os.path.join(V, "properties.jsonl"))]
ids = [p["id"] for p in props]

TRUST = ("trusted base: the simulated kernel verifrt/simos (process groups, signals, pipes), testing/synctest's fake clock, "
         "the simrewrite instrumentation (sync/chan/select/go/map-range rewrites of a scratch copy; the shipped tree is not modified), "
         "and the oracle written from the property statement and www/docs. Interleavings are explored at sync/channel/timer granularity.")

CLAIMS = {
 "C01": ("exploration", "3.C01", "seeded simulated runs; instant oracle at every launch against ground truth",
         "Every launch of a process with dependencies, in thousands of seeded projects x schedules x fault mixes, is checked at its instant against the simulated process table: exploration is the right level because the property quantifies over graphs x timings x schedules; the space is sampled, not enumerated."),
 "C02": ("exploration", "3.C02", "seeded simulated runs + injection-point sweep of StopProcess over every scheduler step of baseline runs; per-exit relaunch oracle on the fake clock",
         "Per-exit relaunch decisions, exact back-off gaps on the fake clock and the no-relaunch-after-stop clause are checked over seeded policies/exit sequences; the stop request is additionally injected at every scheduler step of baseline runs (a sweep, not a sample, of the instants of that execution)."),
 "C03": ("exploration", "3.C03", "seeded simulated runs + injection-point sweep of ShutDownProject over every scheduler step of baseline runs; ground-truth oracle at the return instant",
         "ShutDownProject is injected at every scheduler step of baseline executions (all instants of that execution's life cycles, including check-then-act windows) and at seeded instants in further projects; at its return the simulated process table must hold no live command, nothing may be launched afterwards, Run() must return within a fake-time bound."),
 "C04": ("exploration", "3.C04", "seeded simulated runs of finite projects; Run() return instant / exit-code oracle and bounded-liveness on the fake clock",
         "Finite seeded projects (start failures, skips, several exit_on_* carriers) must make Run() return by itself within a generous fake-time bound with an exit code that belongs to a genuine trigger; deadlocks show up as bounded-liveness failures, not wall-clock timeouts."),
 "C05": ("exploration", "3.C05", "seeded simulated runs with dependency-failure faults; skip oracle from ground truth",
         "Dependencies are made to fail in every generated way at depth 1-4; the dependent must have no launch in the whole run and be reported Skipped with a non-zero code, transitively."),
 "C12": ("exploration", "3.C12", "seeded simulated runs with ordered shutdown; signal-instant vs dependents' death oracle",
         "For every stop signal delivered during an ordered shutdown the dependents that were running when the shutdown began must already be dead in the simulated process table; seeded DAG shapes, running subsets and termination lags."),
 "C08": ("exploration", "3.C08", "seeded simulated runs with 2-4 concurrent client tasks; instance-overlap oracle at every launch (armed in every run of every property) and outcome-vs-activity oracle per request",
         "Concurrent and duplicate start/stop/restart requests (unknown names included) are issued by several client tasks against processes that exit fast, die slowly, restart or wait for dependencies; at every launch no other command of the replica may be alive, a successful stop must end in termination without relaunch, start must succeed iff no instance is active."),
 "C20": ("exploration", "3.C20", "seeded simulated runs under the Go race detector (serialised schedules, happens-before-faithful simulated sync primitives, scheduler hand-offs hidden from the detector) + panic and blocked-forever oracles",
         "2-5 client tasks issue state/log queries, subscriptions and start/stop/restart/scale/shutdown requests against projects whose processes exit, restart and log, plus a poller with the TUI's access pattern; every seeded schedule runs under the Go race detector, which reports each pair of conflicting accesses the schedule visits that no synchronisation of the code under test orders - deterministically per seed and replayable. Panics in any task and calls that never return are violations too."),
 "C10": ("exploration", "3.C10", "seeded simulated runs with scripted probe-outcome sequences (successes, failures, hanging probe commands) and probe parameters drawn from {-1,0,1,2,3,10,unset}; probe runs, signals and relaunches read off the simulated kernel and fake clock; reported health compared at every stable point",
         "Exec readiness probes run unmodified against the simulated kernel: every probe command launch, its time-out kill, the stop signal after the failure threshold and the relaunch are events of the simulated process table on the fake clock. Effective parameters are observed (first probe not before the initial delay, runs of one prober at least 1 s apart, hanging probe killed no earlier than the effective time-out), the stop comes exactly when failure_threshold consecutive runs of this launch's prober failed and never earlier, the relaunch follows iff the restart policy owes one, and the reported health at every stable point equals the outcome of the last finished probe run of the current launch (unknown when none finished). A daemon arm (launcher exits, liveness probe with scripted outcomes) checks 'treated as exited after failure_threshold consecutive failures, not before, then restart policy'; the effective parameters of every probe, including the port of a never-started http_get probe, are read back from the runner and must be legal. http probes are never run (real sockets): see DESIGN.md."),
 "C13": ("exploration", "3.C13", "seeded sequences of scale requests (and pairs of concurrent ones) against a replicated process on the simulated kernel; after each request an audit of names, states, configurations and logs is compared with the expected replica set, with a fresh load of the same project, and with the simulated process table (who was launched, signalled, left alone)",
         "A replicated process (1-11 replicas, 98-101 occasionally in the thorough tier; forever-running, finite or restarting commands) receives 1-5 successive scale requests - up, down, across the 9/10 and 99/100 width boundaries, to the current value, n<1, unknown and stale names - or two requests at the same instant. After each, exactly the expected names must be listed (and equal a fresh load's), every replica must report its own number, rendered command, PC_REPLICA_NUM, state (pid of its own command) and log lines; survivors must not have been signalled or relaunched, removed ones must be dead and gone, added ones launched once, other processes untouched, invalid requests must fail without side effects; concurrent requests must leave the outcome of one of the two orders."),
 "C14": ("exploration", "3.C14", "seeded pairs and chains of configurations applied with UpdateProject to a running project on the simulated kernel; returned status map, listed processes, reported configuration and the simulated process table (kept / signalled / relaunched commands and the arguments, environment and directory they were launched with) compared with the new configuration",
         "Projects of 1-5 processes receive 1-3 successive updates that remove, add, change (command, environment, working directory, restart policy, back-off, readiness probe, disabled flag) or keep each process, or are identical to the current configuration. The status map must name exactly the added, removed and updated processes; afterwards exactly the new set is listed, unchanged processes kept their command (not signalled, not relaunched), changed ones had the old command terminated and run one launched with the new configuration, removed ones are dead and gone, new ones launched. Replica-count changes through an update and description-only changes are not generated: see DESIGN.md."),
 "C06": ("exploration", "3.C06", "seeded process trees on the simulated kernel (process groups, children and grandchildren, members ignoring the stop signal, slow deaths) x shutdown parameters (signal incl. out-of-range values, parent_only, time-out, shutdown command that succeeds / fails / lies / hangs) x stop, restart and shutdown requests at seeded instants, the shutdown also requested by SIGTERM/SIGINT/SIGHUP delivered to the binary's own handler (src/cmd runHeadless run in simulation); every kill(2) issued is compared with the configuration on the fake clock, the process table is inspected after Run() returned",
         "Every signal the code under test sends goes through the simulated kill(2): the first one must be the configured signal (SIGTERM for out-of-range values), aimed at the process group (the pid with parent_only); SIGKILL follows exactly when the command is still alive shutdown.timeout_seconds later, never earlier and never without a time-out; a shutdown command must run with the process's environment and working directory and SIGKILL follows it only when it fails or times out; after a project shutdown - requested through the API or by a signal to the binary - no member of any managed command's group that was owed a signal is alive. Real OS processes are not used: the kernel is the simulated one (DESIGN.md 2.3)."),
 "C19": ("exploration", "3.C19", "the C08 / C13 / C14 workloads with every request sent through the real gin engine (api.InitRoutes over the live runner) and the bundled client over an in-process transport, judged by the same oracles; reads taken directly and through REST at the same scheduler instant and compared; seeded invalid raw requests",
         "Requests and responses travel through the real routing, handlers, JSON encoding and the bundled client's decoding; only the socket is replaced (a RoundTripper that serves the request on the calling simulated task). The outcome of every state-changing request is judged by the oracles of the direct calls (C08 start/stop/restart, C13 scaling, C14 update); state, states, info, names, ports, hostname and project state are read directly, through REST and directly again under a pinned schedule and must agree; 3-10 invalid requests per run (unknown names, non-numeric / out-of-range path parameters, malformed bodies, wrong methods) must be answered 4xx with a message, never 5xx or a panic, and GET /live must still answer. The websocket log stream and real sockets are not exercised: see DESIGN.md."),
 "C16": ("exploration", "3.C16", "the real loader run repeatedly on seeded configuration files while the simulator decides every map iteration order (the loader's only source of nondeterminism); loads compared with each other and with the per-replica rendering computed from the scenario",
         "The loader is a function of the files except for Go's randomised map iteration; that order is behind the simulator's seam (rewritten range-over-map in src/loader, src/types, src/templater), so 'the same files always yield the same project' is decided by loading the same files 2-4 times per run under seeded, sorted, reversed and rotated orders and comparing the complete projects; defaults (name, namespace, replicas, launch time-out, unique replica names) and the rendering of every templated field for each replica's own variables and number are compared with the scenario. No clock, scheduling or fault is involved: this is the narrow part of the property simulation can decide (DESIGN.md 3/C16)."),
 "C07": ("exploration", "3.C07", "seeded dependency graphs (cycles, self-dependencies, undefined names, disabled / foreground / replicated / namespaced processes, requested subsets with and without no-deps) loaded by the real loader and run by the real runner on the simulated kernel under seeded map iteration orders; load result, dependency order, launched commands and reported states compared with the graph",
         "The accept/reject decision and the order are functions of the file except for map iteration order, which the simulator decides; which commands are actually launched is observed on the simulated kernel after NewProjectRunner+Run under seeded schedules. Expected: rejection iff the graph has a cycle or an undefined dependency; the order lists exactly the processes that are to run, once, dependencies first; exactly the selected processes (closure of the requested ones unless no-deps; not disabled, not foreground, inside the selected namespaces) are launched, once, and with a selection every other process is reported Disabled. Exhaustive enumeration of small graphs is not attempted (sampling): see DESIGN.md."),
 "C11": ("exploration", "3.C11", "seeded simulated runs with scripted output on both streams (chunk splitting, partial last lines, bursts, read errors, restarts); every byte written to the simulated pipes is compared with the log buffer and the log file at the end",
         "What a process wrote to the simulated pipes is ground truth: every complete line must reach the in-memory log and the log file once, in per-stream order, whole (never split or merged across chunk boundaries) and attributed to the right process, across restarts and read errors."),
 "C18": ("exploration", "3.C18", "seeded concurrent writers/readers/subscribers of the log buffer under the cooperative scheduler; porcupine linearizability against a sequential ring model; follower oracle (no loss, duplication or reordering after subscription)",
         "Writers, range readers, subscribers and unsubscribers run as simulated tasks over the real ProcessLogBuffer with seeded sizes (including the trim boundary); the recorded history is checked with porcupine against a sequential model, every GetLogRange(offset, limit) over a grid of arguments is compared with the model's window, and each follower must receive exactly the lines written after its snapshot. The REST/websocket transport of logs is not part of the check: see DESIGN.md."),
 "C09": ("exploration", "3.C09", "seeded simulated runs; every status transition observed synchronously; reported state vs simulated process table at every stable point",
         "Every transition (synchronous hook, not sampled) is checked against the legal relation and the reported state is compared with ground truth at every stable point of every run."),
}
NA = {
 "C15": "merge is a pure function of the parsed files: no schedule, clock, fault or interleaving reaches its result (map order is erased by an explicit sort and is covered by C16's determinism check); deciding it needs input generation against a reference merge, which is a different technique - see DESIGN.md section 3/C15",
}
claimed = [i for i in ids if i in CLAIMS and os.environ.get("ONLY", i) ]
claimed_env = os.environ.get("CLAIMED")
if claimed_env:
    claimed = [i for i in ids if i in claimed_env.split(",")]
checks = []
for i in claimed:
    cat, ref, tech, text = CLAIMS[i]
    checks.append({
        "property_id": i,
        "quick_cmd": "./check %s quick" % i,
        "thorough_cmd": "./check %s thorough" % i,
        "evidence_file": "/verif/evidence/%s.json" % i,
        "replay_cmd_template": "./check %s --replay {path}" % i,
        "engine": "verifsim",
        "level_claimed": {"category": cat, "text": text, "design_ref": "DESIGN.md " + ref},
        "level_note": TRUST,
        "technique": "deterministic simulation with fault injection: " + tech,
    })
na = []
for i in ids:
    if i in claimed:
        continue
    na.append({"property_id": i, "reason": NA.get(i, "not claimed yet: its check is still being built in this session (see DESIGN.md section 3 for the design)")})
m = {
 "version": 1,
 "setup_cmd": "./scripts/setup.sh",
 "hooks": {"guard": "verif", "enable": "none in /repo: all instrumentation is generated into a scratch copy of the working tree by sim/rewrite (scripts/build.sh); the scratch build uses -tags verif",
           "baseline_off_cmd": "cd /repo && go test -vet=off -count=1 -timeout 25m ./...", "source_commits": [], "add_only": True},
 "engines": [{"name": "verifsim", "path": "/verif/sim", "serves_properties": claimed,
              "kind_free_text": "deterministic simulator: cooperative seeded scheduler inside a testing/synctest bubble (fake clock), simulated OS kernel, AST-instrumented copy of the real code, event-log oracles, replay files"}],
 "checks": checks,
 "not_applicable": na,
 "notes": "See DESIGN.md. Exit codes: 0 held (KNOWN-FINDING lines allowed), 1 VIOLATION, 2 harness trouble. Genuine defects repaired in /repo are listed in known_findings.json under 'fixed'.",
}
json.dump(m, open(os.path.join(V, "MANIFEST.json"), "w"), indent=1)
print("claimed:", claimed)
