#!/bin/bash
# usage: tools/all_quick.sh [seed...]  -- run the quick tier of every built property for each seed
cd "$(dirname "$0")/.."
PROPS=${PROPS:-"C01 C02 C03 C04 C05 C06 C07 C08 C09 C10 C11 C12 C13 C14 C16 C17 C18 C19 C20"}
for seed in "${@:-1}"; do
  for p in $PROPS; do
    VERIF_SEED=$seed ./check $p quick 2>&1 | grep "class=\|^property\|TROUBLE\|VIOLATION\|KNOWN" | cut -c1-260 | sed "s/^/[seed $seed] /"
  done
done
