package simsync

import "time"

// Timer reproduces the channel semantics of time.Timer for programs whose go.mod says
// go < 1.23 (GODEBUG asynctimerchan=1), which is what the shipped binary of the system
// under test gets: the channel has a buffer of one, and neither Stop nor Reset drains a
// tick that was already delivered. The simulator itself must run with the new semantics
// (testing/synctest requires them), so NewTimer/AfterFunc calls in the instrumented
// packages are redirected here.
type Timer struct {
	C <-chan time.Time
	c chan time.Time
	t *time.Timer
}

//go:norace
func NewTimer(d time.Duration) *Timer {
	c := make(chan time.Time, 1)
	tm := &Timer{C: c, c: c}
	tm.t = time.AfterFunc(d, tm.fire)
	return tm
}

func (t *Timer) fire() {
	select {
	case t.c <- time.Now():
	default:
	}
}

func AfterFunc(d time.Duration, f func()) *Timer {
	return &Timer{t: time.AfterFunc(d, f)}
}

// Stop does not drain the channel (old semantics).
func (t *Timer) Stop() bool { return t.t.Stop() }

// Reset does not drain the channel (old semantics): a stale tick stays readable.
func (t *Timer) Reset(d time.Duration) bool { return t.t.Reset(d) }
