// Package simsync is the simulator-owned replacement for package sync plus the
// cooperative scheduler that decides which goroutine of the system under test runs.
//
// It must be used from inside a testing/synctest bubble: synctest supplies the fake
// clock and quiescence detection (synctest.Wait), this package supplies the choice of
// who runs next. Every task (goroutine created through Go) is parked on a private
// channel whenever it is not the one task the controller released; all ways of becoming
// runnable end in a park before shared state is touched.
package simsync

import (
	"fmt"
	"runtime"
	realsync "sync"
	"testing/synctest"
	"time"
	"unsafe"
)

// Stream identifies the consumer of a choice; each has its own PRNG so that a change in
// the number of draws of one does not shift the others.
type Stream uint8

const (
	StSched Stream = iota
	StSelect
	StIter
	StChunk
	StFault
	StStall
	StUser
	nStreams
)

var streamNames = [...]string{"sched", "select", "iter", "chunk", "fault", "stall", "user"}

type TaskState uint8

const (
	tsNew TaskState = iota
	tsReady
	tsRunning
	tsBlockedSim
	tsBlockedNative
	tsDone
)

//go:norace
func (s TaskState) String() string {
	return [...]string{"new", "ready", "running", "blocked-sim", "blocked-native", "done"}[s]
}

type Task struct {
	ID      int
	Name    string
	Site    int // site where it last yielded/blocked
	state   TaskState
	wake    chan struct{}
	prio    int
	waitOn  string // description of what a blocked-sim task waits for
	Harness bool   // harness-owned task (not SUT code)
	Steps   int    // times this task was released
	daemon  bool
}

//go:norace
func (t *Task) String() string { return fmt.Sprintf("t%d(%s)", t.ID, t.Name) }

// Strategy kinds.
const (
	StratUniform = iota
	StratSticky  // run-to-block with a switch probability
	StratPCT     // random priorities with d change points
)

type Strategy struct {
	Kind           int
	SwitchPermille int // StratSticky: chance to switch away although the last task is ready
	PCTDepth       int
	PCTLen         int // expected run length for the change points
	StallPermille  int // per decision: set a ready task aside for a fake duration (fault F13)
	StallMaxMs     int
}

type Config struct {
	Seed     uint64
	Tape     []int32 // decisions to replay before falling back to the PRNG streams
	Strategy Strategy
	MaxSteps int
	// Horizon is how much fake time may pass with no task ready before the controller
	// gives up on the run (safety net; the harness' own bounded waits come first).
	Horizon  time.Duration
	IterMode int // 0 seeded, 1 sorted, 2 reverse-sorted, 3 rotate by IterRot, 4 native
	IterRot  int
	// Stable is called by the controller whenever no task is ready (the system has
	// finished reacting to everything that happened up to this fake instant). It may
	// make tasks ready (e.g. post to an observer's semaphore) and returns true if so.
	Stable func() bool
	// OnStep is called by the controller before a task is released.
	OnStep func(step int, t *Task, nReady int)
	// Paranoid verifies on every sim call that the calling goroutine is the task the
	// scheduler believes is running (goroutine-id lookup; slow).
	Paranoid bool
	// ForceStall*: set the named task aside for ForceStallDur when it is about to take its
	// ForceStallStep-th step (once): fault F13 placed on purpose, for injection sweeps.
	ForceStallTask string
	ForceStallStep int
	ForceStallDur  time.Duration
}

type PanicInfo struct {
	Task  string
	Value string
	Stack string
	Step  int
}

type Outcome struct {
	Steps        int
	Decisions    int
	Tape         []int32
	TapeDiverged bool // a replayed decision did not fit (scenario or code changed)
	Panics       []PanicInfo
	Trouble      string // harness trouble: instrumentation hole, etc.
	StepLimit    bool
	HorizonHit   bool
	Blocked      []string // tasks still blocked when the run ended (for diagnostics)
	FakeElapsed  time.Duration
	Stalls       int
	Preemptions  int // decisions where the previously running task was ready but another was picked
	Contended    int // lock acquisitions that found the lock held
	NTasks       int
	StablePoints int
}

type poisonT struct{}

var poison = poisonT{}

// IsPoison reports whether a recovered panic value is the scheduler's teardown sentinel.
//go:norace
func IsPoison(v any) bool { _, ok := v.(poisonT); return ok }

type Sched struct {
	mu       realsync.Mutex
	cfg      Config
	tasks    []*Task
	ready    []*Task
	cur      *Task
	last     *Task
	notify   chan struct{}
	rng      [nStreams]splitmix
	tape     []int32
	tapePos  int
	out      Outcome
	poisoned bool
	start    time.Time
	steps    int
	mainDone bool
	pctChg   []int
	goids    []goidEntry
	stalled  int
	forcedStall bool
	inStable bool
	prefer   *Task
	mainFn   func()
	endTok   int
	stableSteps int
}

type goidEntry struct {
	gid uint64
	t   *Task
}

// S is the scheduler of the run in progress (one run at a time per OS process).
var S *Sched

type splitmix struct{ x uint64 }

//go:norace
func (s *splitmix) next() uint64 {
	s.x += 0x9e3779b97f4a7c15
	z := s.x
	z = (z ^ (z >> 30)) * 0xbf58476d1ce4e5b9
	z = (z ^ (z >> 27)) * 0x94d049bb133111eb
	return z ^ (z >> 31)
}

//go:norace
func (s *splitmix) intn(n int) int {
	if n <= 1 {
		return 0
	}
	return int(s.next() % uint64(n))
}

// Mix derives a sub-seed.
//go:norace
func Mix(seed uint64, k uint64) uint64 {
	s := splitmix{seed ^ (k * 0xd6e8feb86659fd93)}
	s.next()
	return s.next()
}

// Execute runs main as task 0 under the scheduler and returns when main has returned (or
// the run was aborted) and all tasks have been torn down as far as possible. It must be
// called from the root goroutine of a synctest bubble.
//go:norace
func Execute(cfg Config, main func()) *Outcome {
	s := &Sched{cfg: cfg, notify: make(chan struct{}, 1), start: time.Now()}
	for i := range s.rng {
		s.rng[i] = splitmix{Mix(cfg.Seed, uint64(i)+1)}
	}
	if cfg.MaxSteps == 0 {
		s.cfg.MaxSteps = 200000
	}
	if cfg.Horizon == 0 {
		s.cfg.Horizon = 2 * time.Hour
	}
	if cfg.Strategy.Kind == StratPCT {
		n := cfg.Strategy.PCTLen
		if n <= 0 {
			n = 300
		}
		r := splitmix{Mix(cfg.Seed, 77)}
		for i := 0; i < cfg.Strategy.PCTDepth; i++ {
			s.pctChg = append(s.pctChg, r.intn(n))
		}
	}
	S = s
	defer func() { S = nil }()

	s.mainFn = main
	s.spawn("main", 0, true, s.runMain)
	raceDisable()
	s.loop()
	s.teardown()
	raceEnable()
	raceAcquire(unsafe.Pointer(&s.endTok))
	s.out.Steps = s.steps
	s.out.Tape = s.tape
	s.out.FakeElapsed = time.Since(s.start)
	s.out.NTasks = len(s.tasks)
	return &s.out
}

//go:norace
func (s *Sched) kick() {
	select {
	case s.notify <- struct{}{}:
	default:
	}
}

// spawn creates a task in state ready; the goroutine starts parked.
//go:norace
func (s *Sched) spawn(name string, site int, harness bool, f func()) *Task {
	raceDisable()
	s.mu.Lock()
	t := &Task{ID: len(s.tasks), Name: name, Site: site, state: tsReady, wake: make(chan struct{}, 1), Harness: harness}
	if s.cfg.Strategy.Kind == StratPCT {
		r := &s.rng[StSched]
		t.prio = 1000 + r.intn(1000000)
	}
	s.tasks = append(s.tasks, t)
	s.ready = append(s.ready, t)
	s.mu.Unlock()
	raceEnable()
	go s.taskMain(t, f)
	return t
}

//go:norace
func (s *Sched) runMain() {
	defer s.setMainDone()
	s.mainFn()
}

//go:norace
func (s *Sched) setMainDone() { s.mainDone = true }

// taskMain is the body of every task goroutine.
//
//go:norace
func (s *Sched) taskMain(t *Task, f func()) {
	if s.cfg.Paranoid {
		raceDisable()
		s.mu.Lock()
		s.goids = append(s.goids, goidEntry{goid(), t})
		s.mu.Unlock()
		raceEnable()
	}
	raceDisable() // the controller hand-off must not create a happens-before edge
	<-t.wake
	raceEnable()
	defer s.taskExit(t)
	if s.poisoned {
		panic(poison)
	}
	f()
}

//go:norace
func (s *Sched) taskExit(t *Task) {
	r := recover()
	var pi *PanicInfo
	if r != nil && !IsPoison(r) {
		buf := make([]byte, 16384)
		n := runtime.Stack(buf, false)
		pi = &PanicInfo{Task: t.String(), Value: fmt.Sprint(r), Stack: string(buf[:n]), Step: s.steps}
	}
	// everything this task did happens-before the code that runs after the simulation
	raceReleaseMerge(unsafe.Pointer(&s.endTok))
	raceDisable()
	s.mu.Lock()
	if pi != nil {
		s.out.Panics = append(s.out.Panics, *pi)
	}
	t.state = tsDone
	if s.cur == t {
		s.cur = nil
	}
	s.mu.Unlock()
	s.kick()
	// race detection stays off for the rest of this goroutine's life (it only returns)
}

// current returns the task that is executing the calling code. Only one task runs at a
// time, so this is the scheduler's cur; with Paranoid the goroutine id is verified.
//go:norace
func (s *Sched) current() *Task {
	if s.poisoned {
		panic(poison)
	}
	t := s.cur
	if t == nil || t.state != tsRunning {
		s.trouble(fmt.Sprintf("sim call with no running task (cur=%v): a goroutine escaped the scheduler", t))
		panic(poison)
	}
	if s.cfg.Paranoid {
		g := goid()
		s.mu.Lock()
		var owner *Task
		for _, e := range s.goids {
			if e.gid == g {
				owner = e.t
			}
		}
		s.mu.Unlock()
		if owner != t {
			s.trouble(fmt.Sprintf("sim call from goroutine %d (task %v) while %v is the released task", g, owner, t))
			panic(poison)
		}
	}
	return t
}

//go:norace
func (s *Sched) trouble(msg string) {
	buf := make([]byte, 8192)
	n := runtime.Stack(buf, false)
	raceDisable()
	s.mu.Lock()
	if s.out.Trouble == "" {
		s.out.Trouble = msg + "\n" + string(buf[:n])
	}
	s.poisoned = true
	s.mu.Unlock()
	s.kick()
	raceEnable()
}

// park hands control back to the controller and waits to be released.
// The caller must already have put t into its new state.
//go:norace
func (s *Sched) park(t *Task) {
	raceDisable()
	s.kick()
	<-t.wake
	raceEnable()
	if s.poisoned {
		panic(poison)
	}
}

// yield makes the running task ready and parks it: a scheduling point.
//go:norace
func (s *Sched) yield(t *Task, site int) {
	raceDisable()
	s.mu.Lock()
	t.state = tsReady
	t.Site = site
	s.ready = append(s.ready, t)
	s.cur = nil
	s.mu.Unlock()
	raceEnable()
	s.park(t)
}

// blockSim parks the running task without making it ready; somebody must call makeReady.
//go:norace
func (s *Sched) blockSim(t *Task, what string) {
	raceDisable()
	s.mu.Lock()
	t.state = tsBlockedSim
	t.waitOn = what
	s.cur = nil
	s.mu.Unlock()
	raceEnable()
	s.park(t)
}

// makeReady moves a blocked-sim task to the ready set (called by the running task).
//go:norace
func (s *Sched) makeReady(t *Task) {
	raceDisable()
	s.mu.Lock()
	if t.state == tsBlockedSim {
		t.state = tsReady
		t.waitOn = ""
		s.ready = append(s.ready, t)
	}
	s.mu.Unlock()
	raceEnable()
}

// beginNative marks the running task as about to block in a native operation (channel,
// timer). The controller regains control as soon as the goroutine is durably blocked.
//go:norace
func (s *Sched) beginNative(t *Task, site int) {
	raceDisable()
	s.mu.Lock()
	t.state = tsBlockedNative
	t.Site = site
	s.cur = nil
	s.mu.Unlock()
	s.kick()
	raceEnable()
}

// endNative is the wake-yield: the goroutine has been woken by the runtime (sender,
// close, timer); it becomes ready and parks until the controller releases it.
//go:norace
func (s *Sched) endNative(t *Task) {
	raceDisable()
	s.mu.Lock()
	t.state = tsReady
	s.ready = append(s.ready, t)
	s.mu.Unlock()
	raceEnable()
	s.park(t)
}

//go:norace
func (s *Sched) choose(st Stream, n int) int {
	if n <= 1 {
		return 0
	}
	var v int
	if s.tapePos < len(s.cfg.Tape) {
		v = int(s.cfg.Tape[s.tapePos])
		s.tapePos++
		if v < 0 || v >= n {
			s.out.TapeDiverged = true
			if v < 0 {
				v = -v
			}
			v %= n
		}
	} else {
		v = s.rng[st].intn(n)
	}
	s.tape = append(s.tape, int32(v))
	s.out.Decisions++
	return v
}

// pick chooses the index (into the id-sorted ready list) of the task to release.
//go:norace
func (s *Sched) pick() int {
	n := len(s.ready)
	if n == 1 {
		return 0
	}
	if s.prefer != nil {
		for i, t := range s.ready {
			if t == s.prefer {
				return i
			}
		}
	}
	if s.tapePos < len(s.cfg.Tape) {
		return s.choose(StSched, n)
	}
	r := &s.rng[StSched]
	v := 0
	switch s.cfg.Strategy.Kind {
	case StratSticky:
		li := -1
		for i, t := range s.ready {
			if t == s.last {
				li = i
			}
		}
		if li >= 0 && r.intn(1000) >= s.cfg.Strategy.SwitchPermille {
			v = li
		} else {
			v = r.intn(n)
		}
	case StratPCT:
		for _, c := range s.pctChg {
			if c == s.steps && s.last != nil {
				s.last.prio = r.intn(1000)
			}
		}
		best := 0
		for i, t := range s.ready {
			if t.prio > s.ready[best].prio {
				best = i
			}
		}
		v = best
	default:
		v = r.intn(n)
	}
	s.tape = append(s.tape, int32(v))
	s.out.Decisions++
	return v
}

//go:norace
func (s *Sched) loop() {
	for {
		synctest.Wait()
		s.mu.Lock()
		if s.cur != nil && s.cur.state == tsRunning {
			// The released task is durably blocked somewhere the simulator does not
			// know about: an instrumentation hole.
			t := s.cur
			s.mu.Unlock()
			s.trouble(fmt.Sprintf("task %v blocked outside the simulator (uninstrumented blocking operation) after site %d", t, t.Site))
			return
		}
		if s.poisoned || s.mainDone {
			s.mu.Unlock()
			return
		}
		if len(s.ready) == 0 {
			s.mu.Unlock()
			if s.cfg.Stable != nil && !s.inStable && s.steps != s.stableSteps && s.stalled == 0 {
				s.inStable = true
				s.out.StablePoints++
				if s.cfg.Stable() {
					continue
				}
			}
			s.inStable = false
			s.stableSteps = s.steps
			// Nothing can happen at this fake instant any more. Every kick received so far is
			// stale (all goroutines are durably blocked and nothing is ready). Block:
			// synctest advances the clock to the next timer.
			select {
			case <-s.notify:
			default:
			}
			raceEnable() // library code below must see its own synchronisation
			tm := time.NewTimer(s.cfg.Horizon)
			raceDisable()
			select {
			case <-s.notify:
				raceEnable()
				tm.Stop()
				raceDisable()
			case <-tm.C:
				s.out.HorizonHit = true
				s.describeBlocked()
				return
			}
			continue
		}
		if s.steps >= s.cfg.MaxSteps {
			s.out.StepLimit = true
			s.mu.Unlock()
			s.describeBlocked()
			return
		}
		for i := 1; i < len(s.ready); i++ {
			for j := i; j > 0 && s.ready[j].ID < s.ready[j-1].ID; j-- {
				s.ready[j], s.ready[j-1] = s.ready[j-1], s.ready[j]
			}
		}
		// drain stale kicks so that a later block on notify is genuine
		select {
		case <-s.notify:
		default:
		}
		i := s.pick()
		t := s.ready[i]
		if s.last != nil && s.last != t && s.last.state == tsReady {
			s.out.Preemptions++
		}
		if s.cfg.ForceStallTask != "" && !s.forcedStall && t.Name == s.cfg.ForceStallTask && t.Steps+1 == s.cfg.ForceStallStep {
			s.forcedStall = true
			s.ready = append(s.ready[:i], s.ready[i+1:]...)
			t.state = tsBlockedSim
			t.waitOn = "stalled"
			s.out.Stalls++
			s.stalled++
			s.mu.Unlock()
			raceEnable()
			d := s.cfg.ForceStallDur
			time.AfterFunc(d, func() { s.unstall(t) })
			raceDisable()
			continue
		}
		// F13: set the chosen task aside for a fake duration instead of running it.
		if sp := s.cfg.Strategy.StallPermille; sp > 0 && !t.Harness && s.choose(StStall, 1000) < sp {
			d := time.Duration(1+s.choose(StStall, s.cfg.Strategy.StallMaxMs+1)) * time.Millisecond
			s.ready = append(s.ready[:i], s.ready[i+1:]...)
			t.state = tsBlockedSim
			t.waitOn = "stalled"
			s.out.Stalls++
			s.stalled++
			s.mu.Unlock()
			raceEnable()
			time.AfterFunc(d, func() { s.unstall(t) })
			raceDisable()
			continue
		}
		s.ready = append(s.ready[:i], s.ready[i+1:]...)
		t.state = tsRunning
		s.cur = t
		s.last = t
		s.steps++
		t.Steps++
		s.mu.Unlock()
		if s.cfg.OnStep != nil {
			s.cfg.OnStep(s.steps, t, len(s.ready)+1)
		}
		t.wake <- struct{}{}
	}
}

//go:norace
func (s *Sched) unstall(t *Task) {
	raceDisable()
	s.mu.Lock()
	if t.state == tsBlockedSim && t.waitOn == "stalled" {
		t.state = tsReady
		t.waitOn = ""
		s.ready = append(s.ready, t)
	}
	s.stalled--
	s.mu.Unlock()
	s.kick()
	raceEnable()
}

//go:norace
func (s *Sched) describeBlocked() {
	raceEnable() // fmt uses sync.Pool: it must see its own synchronisation
	defer raceDisable()
	s.mu.Lock()
	defer s.mu.Unlock()
	for _, t := range s.tasks {
		if t.state != tsDone {
			s.out.Blocked = append(s.out.Blocked, fmt.Sprintf("%v %v site=%d %s", t, t.state, t.Site, t.waitOn))
		}
	}
}

// teardown poisons the scheduler and unwinds the parked tasks one at a time.
//go:norace
func (s *Sched) teardown() {
	s.mu.Lock()
	s.poisoned = true
	s.cur = nil
	s.mu.Unlock()
	for {
		synctest.Wait()
		s.mu.Lock()
		var t *Task
		for _, c := range s.tasks {
			if c.state == tsReady || c.state == tsBlockedSim || c.state == tsNew {
				t = c
				break
			}
		}
		if t == nil {
			s.mu.Unlock()
			break
		}
		t.state = tsRunning // it will unwind by panicking at its next sim call
		s.mu.Unlock()
		select {
		case t.wake <- struct{}{}:
		default:
		}
		synctest.Wait()
		s.mu.Lock()
		if t.state == tsRunning {
			// blocked natively while unwinding (or stuck); give up on it
			t.state = tsBlockedNative
		}
		s.mu.Unlock()
	}
}

// ---- public helpers for harness and instrumented code ----

// Go starts f as a new task. The child starts parked; the parent continues.
//go:norace
func Go(site int, f func()) {
	s := S
	if s == nil {
		go f()
		return
	}
	t := s.current()
	_ = t
	s.spawn(fmt.Sprintf("go@%d", site), site, false, f)
}

// GoNamed starts a harness task.
//go:norace
func GoNamed(name string, f func()) *Task {
	s := S
	s.current()
	return s.spawn(name, 0, true, f)
}

// GoNamedStallable starts a named task that fault F13 may set aside like a goroutine of the
// system under test (a request handler is one).
//go:norace
func GoNamedStallable(name string, f func()) *Task {
	s := S
	s.current()
	return s.spawn(name, 0, false, f)
}

// Yield is a scheduling point.
//go:norace
func Yield(site int) {
	s := S
	if s == nil {
		return
	}
	s.yield(s.current(), site)
}

// Sleep blocks the calling task for d of fake time.
//go:norace
func Sleep(site int, d time.Duration) {
	s := S
	if s == nil {
		time.Sleep(d)
		return
	}
	t := s.current()
	s.beginNative(t, site)
	time.Sleep(d)
	s.endNative(t)
}

// Choose draws a recorded choice in [0,n) from the given stream.
//go:norace
func Choose(st Stream, n int) int {
	s := S
	if s == nil {
		return 0
	}
	return s.choose(st, n)
}

// Step is the number of scheduling steps taken so far.
//go:norace
func Step() int {
	if S == nil {
		return 0
	}
	return S.steps
}

// Elapsed is the fake time since the run started.
//go:norace
func Elapsed() time.Duration {
	if S == nil {
		return 0
	}
	return time.Since(S.start)
}

// CurrentTask returns the running task (nil outside a run).
//go:norace
func CurrentTask() *Task {
	if S == nil {
		return nil
	}
	return S.cur
}

// Active reports whether a simulated run is in progress.
//go:norace
func Active() bool { return S != nil && !S.poisoned }

// Abort records harness trouble and ends the run.
//go:norace
func Abort(msg string) {
	if S != nil {
		S.trouble(msg)
		panic(poison)
	}
}

//go:norace
func goid() uint64 {
	var buf [64]byte
	n := runtime.Stack(buf[:], false)
	// "goroutine 123 ["
	var id uint64
	for i := len("goroutine "); i < n; i++ {
		c := buf[i]
		if c < '0' || c > '9' {
			break
		}
		id = id*10 + uint64(c-'0')
	}
	return id
}

// OtherSteps is the number of scheduling steps taken by tasks other than t.
//go:norace
func OtherSteps(t *Task) int {
	if S == nil || t == nil {
		return 0
	}
	return S.steps - t.Steps
}

// ReadyOthers is the number of tasks that are ready to run (the caller, which is running, is
// not among them). Zero means that the caller is the only task that can make a move: the
// system is quiescent but for it.
//go:norace
func ReadyOthers() int {
	if S == nil {
		return 0
	}
	S.mu.Lock()
	n := len(S.ready) + S.stalled
	S.mu.Unlock()
	return n
}

// Prefer makes the controller release t whenever it is ready (nil: no preference). Used
// by injection-point sweeps so that the injected request lands exactly where intended.
//go:norace
func Prefer(t *Task) {
	if S != nil {
		S.prefer = t
	}
}
