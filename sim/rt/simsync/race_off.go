//go:build !race

package simsync

import "unsafe"

const RaceEnabled = false

func raceDisable()                     {}
func raceEnable()                      {}
func raceAcquire(p unsafe.Pointer)      {}
func raceRelease(p unsafe.Pointer)      {}
func raceReleaseMerge(p unsafe.Pointer) {}

func RaceAcquire(p unsafe.Pointer) {}
func RaceRelease(p unsafe.Pointer) {}

func RaceErrors() int { return 0 }
