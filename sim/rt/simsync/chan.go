package simsync

import (
	"fmt"
	"reflect"
	"sort"
)

// Native channel operations of the system under test are routed through these helpers:
// a scheduling point before the operation, and a park right after a wake-up, so that the
// goroutine the Go runtime made runnable does nothing before the simulator releases it.

//go:norace
func Recv1[T any](site int, ch <-chan T) T {
	v, _ := Recv2(site, ch)
	return v
}

//go:norace
func Recv2[T any](site int, ch <-chan T) (T, bool) {
	s := S
	if s == nil {
		v, ok := <-ch
		return v, ok
	}
	t := s.current()
	s.yield(t, site)
	select {
	case v, ok := <-ch:
		return v, ok
	default:
	}
	s.beginNative(t, site)
	v, ok := <-ch
	s.endNative(t)
	return v, ok
}

//go:norace
func Send[T any](site int, ch chan<- T, v T) {
	s := S
	if s == nil {
		ch <- v
		return
	}
	t := s.current()
	s.yield(t, site)
	select {
	case ch <- v:
		return
	default:
	}
	s.beginNative(t, site)
	ch <- v
	s.endNative(t)
}

// Case is one communication clause of a rewritten select statement.
type Case interface {
	try() bool
	reflectCase() reflect.SelectCase
	set(v reflect.Value, ok bool)
}

type RCase[T any] struct {
	ch <-chan T
	v  T
	ok bool
}

//go:norace
func RecvCase[T any](ch <-chan T) *RCase[T] { return &RCase[T]{ch: ch} }

//go:norace
func (c *RCase[T]) try() bool {
	if c.ch == nil {
		return false
	}
	select {
	case v, ok := <-c.ch:
		c.v, c.ok = v, ok
		return true
	default:
		return false
	}
}

//go:norace
func (c *RCase[T]) reflectCase() reflect.SelectCase {
	if c.ch == nil {
		return reflect.SelectCase{Dir: reflect.SelectRecv}
	}
	return reflect.SelectCase{Dir: reflect.SelectRecv, Chan: reflect.ValueOf(c.ch)}
}

//go:norace
func (c *RCase[T]) set(v reflect.Value, ok bool) {
	c.ok = ok
	if v.IsValid() {
		c.v, _ = v.Interface().(T)
	}
}

// Val is the received value; Get also reports whether the channel was open.
//go:norace
func (c *RCase[T]) Val() T          { return c.v }
//go:norace
func (c *RCase[T]) Get() (T, bool) { return c.v, c.ok }

type SCase[T any] struct {
	ch chan<- T
	v  T
}

//go:norace
func SendCase[T any](ch chan<- T, v T) *SCase[T] { return &SCase[T]{ch: ch, v: v} }

//go:norace
func (c *SCase[T]) try() bool {
	if c.ch == nil {
		return false
	}
	select {
	case c.ch <- c.v:
		return true
	default:
		return false
	}
}

//go:norace
func (c *SCase[T]) reflectCase() reflect.SelectCase {
	if c.ch == nil {
		return reflect.SelectCase{Dir: reflect.SelectSend}
	}
	return reflect.SelectCase{Dir: reflect.SelectSend, Chan: reflect.ValueOf(c.ch), Send: reflect.ValueOf(&c.v).Elem()}
}

//go:norace
func (c *SCase[T]) set(reflect.Value, bool) {}

// Select implements a rewritten select statement. It returns the index of the chosen
// case, or -1 for the default clause. Among several ready cases the simulator chooses
// (rotation from a recorded choice); if none is ready and there is no default it blocks
// natively on all of them and the waker determines the case.
//go:norace
func Select(site int, hasDefault bool, cases ...Case) int {
	s := S
	if s == nil {
		return nativeSelect(hasDefault, cases)
	}
	t := s.current()
	s.yield(t, site)
	n := len(cases)
	if n > 0 {
		start := 0
		if n > 1 {
			start = s.choose(StSelect, n)
		}
		for k := 0; k < n; k++ {
			i := (start + k) % n
			if cases[i].try() {
				return i
			}
		}
	}
	if hasDefault {
		return -1
	}
	rc := make([]reflect.SelectCase, n)
	for i, c := range cases {
		rc[i] = c.reflectCase()
	}
	s.beginNative(t, site)
	i, v, ok := reflect.Select(rc)
	cases[i].set(v, ok)
	s.endNative(t)
	return i
}

//go:norace
func nativeSelect(hasDefault bool, cases []Case) int {
	rc := make([]reflect.SelectCase, 0, len(cases)+1)
	for _, c := range cases {
		rc = append(rc, c.reflectCase())
	}
	if hasDefault {
		rc = append(rc, reflect.SelectCase{Dir: reflect.SelectDefault})
	}
	i, v, ok := reflect.Select(rc)
	if i == len(cases) {
		return -1
	}
	cases[i].set(v, ok)
	return i
}

// MapKeys returns the keys of m in the order the iteration-order seam dictates: sorted
// canonically and then permuted by the iteration stream (or sorted / reversed / rotated
// for the deterministic modes).
//go:norace
func MapKeys[K comparable, V any](site int, m map[K]V) []K {
	keys := make([]K, 0, len(m))
	for k := range m {
		keys = append(keys, k)
	}
	s := S
	mode := 1
	rot := 0
	if s != nil {
		mode = s.cfg.IterMode
		rot = s.cfg.IterRot
	} else if OfflineIter != nil {
		mode = OfflineIter.Mode
		rot = OfflineIter.Rot
	}
	if mode == 4 {
		return keys
	}
	sortKeys(keys)
	n := len(keys)
	switch mode {
	case 0:
		for i := n - 1; i > 0; i-- {
			var j int
			if s != nil {
				j = s.choose(StIter, i+1)
			} else {
				j = OfflineIter.rng.intn(i + 1)
			}
			keys[i], keys[j] = keys[j], keys[i]
		}
	case 2:
		for i, j := 0, n-1; i < j; i, j = i+1, j-1 {
			keys[i], keys[j] = keys[j], keys[i]
		}
	case 3:
		if n > 0 {
			r := rot % n
			keys = append(keys[r:], keys[:r]...)
		}
	}
	return keys
}

// OfflineIterCfg controls MapKeys outside a simulated run (loader-only checks).
type OfflineIterCfg struct {
	Mode int
	Rot  int
	rng  splitmix
}

var OfflineIter *OfflineIterCfg

//go:norace
func SetOfflineIter(mode, rot int, seed uint64) {
	OfflineIter = &OfflineIterCfg{Mode: mode, Rot: rot, rng: splitmix{seed}}
}

//go:norace
func sortKeys[K comparable](keys []K) {
	if len(keys) < 2 {
		return
	}
	switch ks := any(keys).(type) {
	case []string:
		sort.Strings(ks)
	case []int:
		sort.Ints(ks)
	default:
		sort.Slice(keys, func(i, j int) bool { return fmt.Sprint(keys[i]) < fmt.Sprint(keys[j]) })
	}
}

// SendTo is the two-step form of Send used by rewritten send statements: the value is
// passed by assignability (an untyped constant or a concrete value into an interface
// element type), which one-step type inference would reject.
//go:norace
func SendTo[T any](site int, ch chan<- T) func(T) {
	return func(v T) { Send(site, ch, v) }
}

//go:norace
func SendCaseTo[T any](ch chan<- T) func(T) *SCase[T] {
	return func(v T) *SCase[T] { return SendCase(ch, v) }
}

// Entry is one key of a map being iterated through the iteration-order seam. Get looks
// the key up again at the moment the loop reaches it: entries deleted meanwhile are
// skipped and entries inserted meanwhile are not visited, which is one of the behaviours
// the language allows for a native range loop.
type Entry[K comparable, V any] struct {
	m map[K]V
	k K
}

//go:norace
func (e Entry[K, V]) Get() (K, V, bool) {
	v, ok := e.m[e.k]
	return e.k, v, ok
}

//go:norace
func MapEntries[K comparable, V any](site int, m map[K]V) []Entry[K, V] {
	keys := MapKeys(site, m)
	es := make([]Entry[K, V], len(keys))
	for i, k := range keys {
		es[i] = Entry[K, V]{m, k}
	}
	return es
}

// HookFn receives the name-anchored observations inserted by the rewriter (R7).
var HookFn func(kind, a, b string)

//go:norace
func Hook(kind, a, b string) {
	if HookFn != nil {
		HookFn(kind, a, b)
	}
}
