//go:build race

package simsync

import (
	"runtime"
	"unsafe"
)

const RaceEnabled = true

func raceDisable()                     { runtime.RaceDisable() }
func raceEnable()                      { runtime.RaceEnable() }
func raceAcquire(p unsafe.Pointer)      { runtime.RaceAcquire(p) }
func raceRelease(p unsafe.Pointer)      { runtime.RaceRelease(p) }
func raceReleaseMerge(p unsafe.Pointer) { runtime.RaceReleaseMerge(p) }

// RaceAcquire / RaceRelease let other simulator packages publish happens-before edges.
func RaceAcquire(p unsafe.Pointer) { runtime.RaceAcquire(p) }
func RaceRelease(p unsafe.Pointer) { runtime.RaceReleaseMerge(p) }

// RaceErrors is the number of race reports printed so far by the Go race detector.
func RaceErrors() int { return runtime.RaceErrors() }
