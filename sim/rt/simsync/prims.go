package simsync

import (
	"fmt"
	"time"
	"unsafe"
)

// Drop-in replacements for the sync types used by the system under test. Blocking is a
// park on the task's private channel (durable for synctest, so the fake clock keeps
// working while a lock is held across a time-out), the wait lists are known to the
// scheduler (so contention and deadlock are visible), and the race-detector annotations
// are exactly those of the originals.

type Locker interface {
	Lock()
	Unlock()
}

type Mutex struct {
	held    bool
	owner   *Task
	waiters []*Task
}

const (
	SiteLock   = -1
	SiteWG     = -2
	SiteCond   = -3
	SiteOnce   = -4
	SiteRLock  = -5
	SiteHarness = -10
)

//go:norace
func (m *Mutex) Lock() {
	s := S
	if s == nil {
		if m.held {
			panic("simsync: Mutex.Lock would block outside a simulated run")
		}
		m.held = true
		return
	}
	t := s.current()
	s.yield(t, SiteLock)
	if m.held {
		s.out.Contended++
	}
	for m.held {
		m.waiters = append(m.waiters, t)
		s.blockSim(t, fmt.Sprintf("mutex %p held by %v", m, m.owner))
	}
	m.held = true
	m.owner = t
	raceAcquire(unsafe.Pointer(m))
}

//go:norace
func (m *Mutex) TryLock() bool {
	s := S
	if s != nil {
		t := s.current()
		s.yield(t, SiteLock)
		if m.held {
			return false
		}
		m.held = true
		m.owner = t
		raceAcquire(unsafe.Pointer(m))
		return true
	}
	if m.held {
		return false
	}
	m.held = true
	return true
}

//go:norace
func (m *Mutex) Unlock() {
	if !m.held {
		if S != nil && S.poisoned {
			return // unwinding after the run: a deferred Unlock inside an aborted Cond.Wait
		}
		panic("sync: unlock of unlocked mutex")
	}
	s := S
	raceRelease(unsafe.Pointer(m))
	m.held = false
	m.owner = nil
	if s == nil {
		return
	}
	if s.poisoned {
		return
	}
	ws := m.waiters
	m.waiters = nil
	for _, w := range ws {
		s.makeReady(w)
	}
}

type RWMutex struct {
	writer  bool
	readers int
	owner   *Task
	waiters []*Task
}

//go:norace
func (m *RWMutex) Lock() {
	s := S
	if s == nil {
		m.writer = true
		return
	}
	t := s.current()
	s.yield(t, SiteLock)
	for m.writer || m.readers > 0 {
		m.waiters = append(m.waiters, t)
		s.blockSim(t, fmt.Sprintf("rwmutex %p (w) held by %v r=%d", m, m.owner, m.readers))
	}
	m.writer = true
	m.owner = t
	raceAcquire(unsafe.Pointer(m))
}

//go:norace
func (m *RWMutex) Unlock() {
	if !m.writer {
		panic("sync: Unlock of unlocked RWMutex")
	}
	raceRelease(unsafe.Pointer(m))
	m.writer = false
	m.owner = nil
	m.wakeAll()
}

//go:norace
func (m *RWMutex) RLock() {
	s := S
	if s == nil {
		m.readers++
		return
	}
	t := s.current()
	s.yield(t, SiteRLock)
	for m.writer {
		m.waiters = append(m.waiters, t)
		s.blockSim(t, fmt.Sprintf("rwmutex %p (r) held by %v", m, m.owner))
	}
	m.readers++
	raceAcquire(unsafe.Pointer(m))
}

//go:norace
func (m *RWMutex) RUnlock() {
	if m.readers <= 0 {
		panic("sync: RUnlock of unlocked RWMutex")
	}
	raceReleaseMerge(unsafe.Pointer(m))
	m.readers--
	if m.readers == 0 {
		m.wakeAll()
	}
}

//go:norace
func (m *RWMutex) wakeAll() {
	s := S
	if s == nil || s.poisoned {
		return
	}
	ws := m.waiters
	m.waiters = nil
	for _, w := range ws {
		s.makeReady(w)
	}
}

//go:norace
func (m *RWMutex) RLocker() Locker { return (*rlocker)(m) }

type rlocker RWMutex

//go:norace
func (r *rlocker) Lock()   { (*RWMutex)(r).RLock() }
//go:norace
func (r *rlocker) Unlock() { (*RWMutex)(r).RUnlock() }

// Cond may be copied before first use (the system under test does that).
type Cond struct {
	L       Locker
	waiters []*Task
}

//go:norace
func NewCond(l Locker) *Cond { return &Cond{L: l} }

//go:norace
func (c *Cond) Wait() {
	s := S
	if s == nil {
		panic("simsync: Cond.Wait outside a simulated run")
	}
	t := s.current()
	c.waiters = append(c.waiters, t)
	c.L.Unlock()
	s.blockSim(t, fmt.Sprintf("cond %p", c))
	c.L.Lock()
}

//go:norace
func (c *Cond) Signal() {
	s := S
	if s == nil || s.poisoned {
		return
	}
	if len(c.waiters) == 0 {
		return
	}
	// which waiter is woken is unspecified: let the simulator choose
	i := s.choose(StSched, len(c.waiters))
	w := c.waiters[i]
	c.waiters = append(c.waiters[:i], c.waiters[i+1:]...)
	s.makeReady(w)
}

//go:norace
func (c *Cond) Broadcast() {
	s := S
	if s == nil || s.poisoned {
		return
	}
	ws := c.waiters
	c.waiters = nil
	for _, w := range ws {
		s.makeReady(w)
	}
}

type WaitGroup struct {
	n       int
	waiters []*Task
}

//go:norace
func (wg *WaitGroup) Add(delta int) {
	if delta < 0 {
		raceReleaseMerge(unsafe.Pointer(wg))
	}
	wg.n += delta
	if wg.n < 0 {
		panic("sync: negative WaitGroup counter")
	}
	if len(wg.waiters) > 0 && delta > 0 && wg.n == delta {
		// like the real one
		panic("sync: WaitGroup misuse: Add called concurrently with Wait")
	}
	if wg.n == 0 {
		s := S
		if s == nil || s.poisoned {
			return
		}
		ws := wg.waiters
		wg.waiters = nil
		for _, w := range ws {
			s.makeReady(w)
		}
	}
}

//go:norace
func (wg *WaitGroup) Done() { wg.Add(-1) }

//go:norace
func (wg *WaitGroup) Wait() {
	s := S
	if s == nil {
		if wg.n != 0 {
			panic("simsync: WaitGroup.Wait would block outside a simulated run")
		}
		return
	}
	t := s.current()
	s.yield(t, SiteWG)
	if wg.n > 0 {
		wg.waiters = append(wg.waiters, t)
		s.blockSim(t, fmt.Sprintf("waitgroup %p n=%d", wg, wg.n))
		if wg.n != 0 && !s.poisoned {
			// the real sync.WaitGroup checks its state when a waiter resumes: an Add that
			// slipped in between the counter reaching zero and this moment is fatal
			panic("sync: WaitGroup is reused before previous Wait has returned")
		}
	}
	raceAcquire(unsafe.Pointer(wg))
}

//go:norace
func (wg *WaitGroup) Go(f func()) {
	wg.Add(1)
	Go(SiteWG, func() {
		defer wg.Done()
		f()
	})
}

type Once struct {
	done bool
	m    Mutex
}

//go:norace
func (o *Once) Do(f func()) {
	if S != nil {
		Yield(SiteOnce)
	}
	if o.done {
		raceAcquire(unsafe.Pointer(o))
		return
	}
	o.m.Lock()
	defer o.m.Unlock()
	if !o.done {
		defer func() {
			raceRelease(unsafe.Pointer(o))
			o.done = true
		}()
		f()
	}
}

// ---- harness-side primitives ----

// Event is a one-shot latch for harness code, built on a native channel so that it can
// be combined with timers in Select.
type Event struct {
	set bool
	ch  chan struct{}
}

//go:norace
func (e *Event) c() chan struct{} {
	if e.ch == nil {
		e.ch = make(chan struct{})
	}
	return e.ch
}

//go:norace
func (e *Event) Set() {
	if e.set {
		return
	}
	e.set = true
	close(e.c())
}

//go:norace
func (e *Event) IsSet() bool { return e.set }

// Chan returns a channel that is closed once the event is set.
//go:norace
func (e *Event) Chan() <-chan struct{} { return e.c() }

//go:norace
func (e *Event) Wait() { Recv1(SiteHarness, e.Chan()) }

// WaitTimeout waits up to d of fake time; it reports whether the event was set.
//go:norace
func (e *Event) WaitTimeout(d time.Duration) bool {
	if e.set {
		return true
	}
	tm := time.NewTimer(d)
	defer tm.Stop()
	return Select(SiteHarness, false, RecvCase(e.Chan()), RecvCase(tm.C)) == 0
}

// Sem is a counting semaphore for harness code (used to release the observer task).
type Sem struct {
	n       int
	waiters []*Task
}

// Post may be called from the controller (stable hook) as well as from tasks.
//go:norace
func (m *Sem) Post() {
	m.n++
	s := S
	if s == nil || s.poisoned {
		return
	}
	ws := m.waiters
	m.waiters = nil
	for _, w := range ws {
		s.makeReady(w)
	}
}

//go:norace
func (m *Sem) Wait() {
	s := S
	t := s.current()
	for m.n == 0 {
		m.waiters = append(m.waiters, t)
		s.blockSim(t, "sem")
	}
	m.n--
}
