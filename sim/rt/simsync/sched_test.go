package simsync

import (
	"fmt"
	"strings"
	"testing"
	"testing/synctest"
	"time"
)

func runOnce(t *testing.T, seed uint64, strat Strategy) (string, *Outcome) {
	var trace []string
	var out *Outcome
	func() {
		defer func() { recover() }()
		synctest.Test(t, func(t *testing.T) {
			out = Execute(Config{Seed: seed, Strategy: strat}, func() {
				var mu Mutex
				var wg WaitGroup
				cnt := 0
				ch := make(chan int)
				done := make(chan struct{})
				for i := 0; i < 4; i++ {
					i := i
					wg.Add(1)
					Go(1, func() {
						defer wg.Done()
						for k := 0; k < 3; k++ {
							mu.Lock()
							cnt++
							trace = append(trace, fmt.Sprintf("w%d:%d@%v", i, cnt, Elapsed()))
							mu.Unlock()
							Sleep(2, time.Duration(i+1)*time.Second)
						}
						Send(3, ch, i)
					})
				}
				Go(4, func() {
					for k := 0; k < 4; k++ {
						switch c0 := RecvCase(ch); Select(5, false, c0, RecvCase(time.After(2*time.Second))) {
						case 0:
							mu.Lock()
							trace = append(trace, fmt.Sprintf("recv%d@%v", c0.Val(), Elapsed()))
							mu.Unlock()
						case 1:
							mu.Lock()
							trace = append(trace, fmt.Sprintf("tmo@%v", Elapsed()))
							mu.Unlock()
							k--
						}
					}
					close(done)
				})
				wg.Wait()
				Recv1(6, done)
				m := map[string]int{"a": 1, "b": 2, "c": 3, "d": 4}
				mu.Lock()
				trace = append(trace, fmt.Sprint(MapKeys(7, m)))
				mu.Unlock()
				// leave a goroutine blocked forever
				Go(8, func() { Recv1(9, make(chan int)) })
				Yield(10)
			})
		})
	}()
	return strings.Join(trace, " "), out
}

func TestDeterminism(t *testing.T) {
	distinct := map[string]bool{}
	for seed := uint64(1); seed <= 300; seed++ {
		st := Strategy{Kind: int(seed % 3), SwitchPermille: 200, PCTDepth: 2, PCTLen: 50}
		a, o1 := runOnce(t, seed, st)
		b, o2 := runOnce(t, seed, st)
		if a != b || fmt.Sprint(o1.Tape) != fmt.Sprint(o2.Tape) {
			t.Fatalf("seed %d diverged:\n%s\n%s", seed, a, b)
		}
		if o1.Trouble != "" || len(o1.Panics) > 0 {
			t.Fatalf("seed %d trouble %s %v", seed, o1.Trouble, o1.Panics)
		}
		distinct[a] = true
		// replay from tape with a different seed must give the same trace
		var out *Outcome
		_ = out
	}
	t.Logf("distinct traces: %d", len(distinct))
	if len(distinct) < 50 {
		t.Fatalf("too few distinct traces")
	}
}

func TestDeadlockVisible(t *testing.T) {
	var out *Outcome
	func() {
		defer func() { recover() }()
		synctest.Test(t, func(t *testing.T) {
			out = Execute(Config{Seed: 1, Horizon: time.Hour}, func() {
				var a, b Mutex
				var wg WaitGroup
				wg.Add(2)
				Go(1, func() { a.Lock(); Sleep(2, time.Second); b.Lock(); wg.Done() })
				Go(1, func() { b.Lock(); Sleep(2, time.Second); a.Lock(); wg.Done() })
				wg.Wait()
			})
		})
	}()
	if !out.HorizonHit || len(out.Blocked) != 3 {
		t.Fatalf("expected horizon hit with 3 blocked tasks: %+v", out)
	}
	t.Log(out.Blocked)
}
