// Package simnet is an in-memory full-duplex connection whose blocking is visible to the
// simulator (sim mutex + condition variable, never a real socket): reads block while the
// peer has written nothing, writes block while the peer's receive buffer is full.
package simnet

import (
	"io"
	"net"
	"os"
	"time"

	"verifrt/simsync"
)

type half struct {
	mu     simsync.Mutex
	cond   *simsync.Cond
	buf    []byte
	cap    int
	closed bool // no more data will arrive (writer closed) / reader gone
}

func newHalf(capacity int) *half {
	h := &half{cap: capacity}
	h.cond = simsync.NewCond(&h.mu)
	return h
}

type Conn struct {
	rd, wr *half
	name   string
	closed bool
}

// Pipe returns the two ends of a connection; capacity is the size of each direction's
// buffer (the "socket buffer": a writer blocks when it is full).
func Pipe(capacity int) (*Conn, *Conn) {
	a, b := newHalf(capacity), newHalf(capacity)
	return &Conn{rd: a, wr: b, name: "client"}, &Conn{rd: b, wr: a, name: "server"}
}

func (c *Conn) Read(p []byte) (int, error) {
	h := c.rd
	h.mu.Lock()
	defer h.mu.Unlock()
	for len(h.buf) == 0 {
		if h.closed || c.closed {
			if c.closed {
				return 0, net.ErrClosed
			}
			return 0, io.EOF
		}
		h.cond.Wait()
	}
	n := copy(p, h.buf)
	h.buf = h.buf[n:]
	h.cond.Broadcast()
	return n, nil
}

func (c *Conn) Write(p []byte) (int, error) {
	h := c.wr
	h.mu.Lock()
	defer h.mu.Unlock()
	written := 0
	for written < len(p) {
		if h.closed || c.closed {
			if c.closed {
				return written, net.ErrClosed
			}
			return written, &net.OpError{Op: "write", Net: "sim", Err: os.ErrClosed}
		}
		room := h.cap - len(h.buf)
		if room <= 0 {
			h.cond.Wait()
			continue
		}
		n := len(p) - written
		if n > room {
			n = room
		}
		h.buf = append(h.buf, p[written:written+n]...)
		written += n
		h.cond.Broadcast()
	}
	return written, nil
}

// Close closes both directions: the peer reads EOF and its writes fail.
func (c *Conn) Close() error {
	for _, h := range []*half{c.rd, c.wr} {
		h.mu.Lock()
		h.closed = true
		h.cond.Broadcast()
		h.mu.Unlock()
	}
	c.closed = true
	return nil
}

// Buffered reports how many bytes wait to be read at this end.
func (c *Conn) Buffered() int {
	c.rd.mu.Lock()
	defer c.rd.mu.Unlock()
	return len(c.rd.buf)
}

type addr string

func (a addr) Network() string { return "sim" }
func (a addr) String() string  { return string(a) }

func (c *Conn) LocalAddr() net.Addr                { return addr(c.name) }
func (c *Conn) RemoteAddr() net.Addr               { return addr("peer-of-" + c.name) }
func (c *Conn) SetDeadline(t time.Time) error      { return nil }
func (c *Conn) SetReadDeadline(t time.Time) error  { return nil }
func (c *Conn) SetWriteDeadline(t time.Time) error { return nil }
