module verifrt

go 1.25
