// Package simrand replaces crypto/rand in src/pclog with a PRNG-backed reader so that
// observer ids (map keys) are a function of the seed.
package simrand

import "verifrt/simsync"

var ctr uint64

// Reset is called at the start of every run.
func Reset() { ctr = 0 }

func Read(b []byte) (int, error) {
	for i := range b {
		if i%8 == 0 {
			ctr++
		}
		b[i] = byte(simsync.Mix(0x5eed, ctr) >> (8 * (uint(i) % 8)))
	}
	return len(b), nil
}
