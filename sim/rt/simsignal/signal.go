// Package simsignal replaces os/signal for the instrumented copy of src/cmd: signals
// "sent to the process-compose binary" are delivered by the harness through Deliver.
package simsignal

import (
	"os"

	"verifrt/simlog"
	"verifrt/simsync"
)

type reg struct {
	ch   chan<- os.Signal
	sigs []os.Signal
}

var regs []reg

// Reset forgets every registration (start of a run).
func Reset() { regs = nil }

func Notify(c chan<- os.Signal, sig ...os.Signal) {
	regs = append(regs, reg{c, append([]os.Signal(nil), sig...)})
	simlog.Add(simlog.Event{Kind: "sig.notify", N: len(sig)})
}

func Stop(c chan<- os.Signal) {
	for i := range regs {
		if regs[i].ch == c {
			regs = append(regs[:i], regs[i+1:]...)
			return
		}
	}
}

// Deliver hands sig to every channel registered for it, without blocking (as the runtime
// does); it reports how many channels took it.
func Deliver(sig os.Signal) int {
	n := 0
	for _, r := range regs {
		match := len(r.sigs) == 0
		for _, s := range r.sigs {
			if s == sig {
				match = true
			}
		}
		if !match {
			continue
		}
		if simsync.Select(simsync.SiteHarness, true, simsync.SendCase(r.ch, sig)) == 0 {
			n++
		}
	}
	simlog.Add(simlog.Event{Kind: "sig.deliver", A: sig.String(), N: n})
	return n
}
