// Package simsys replaces package syscall inside src/command: signals and the process
// attributes stay the real types, kill/getpgid go to the simulated simos.
package simsys

import (
	"syscall"

	"verifrt/simos"
)

type Signal = syscall.Signal
type SysProcAttr = syscall.SysProcAttr
type Errno = syscall.Errno
type WaitStatus = syscall.WaitStatus

const (
	SIGTERM = syscall.SIGTERM
	SIGKILL = syscall.SIGKILL
	SIGINT  = syscall.SIGINT
	SIGHUP  = syscall.SIGHUP
	ESRCH   = syscall.ESRCH
)

func Kill(pid int, sig Signal) error { return simos.Kill(pid, int(sig)) }

func Getpgid(pid int) (int, error) { return simos.Getpgid(pid) }
