package simos

import (
	"context"
	"errors"
	"fmt"
	"io"
	"os"
	"strings"
	"syscall"
	"time"

	"verifrt/simlog"
	"verifrt/simsync"
)

// Cmd mirrors the part of os/exec.Cmd that src/command uses.
type Cmd struct {
	Path         string
	Args         []string
	Env          []string
	Dir          string
	Stdin        io.Reader
	Stdout       io.Writer
	Stderr       io.Writer
	SysProcAttr  *syscall.SysProcAttr
	Process      *Process
	ProcessState *ProcessState
	// like exec.Cmd: what Wait does when the context ends (nil: SIGKILL), and how long it
	// gives the command afterwards before it kills it for good (0: for ever)
	Cancel    func() error
	WaitDelay time.Duration

	ctx        context.Context
	stdoutPipe *Pipe
	stderrPipe *Pipe
	proc       *Proc
	waited     bool
}

type Process struct {
	Pid  int
	proc *Proc
}

type ProcessState struct {
	code      int
	pid       int
	signalled bool
	sig       int
}

// the rest of os.ProcessState's surface, so that changes of the system under test that use
// it still build against the facade
func (p *ProcessState) Exited() bool  { return p != nil && !p.signalled }
func (p *ProcessState) Success() bool { return p != nil && !p.signalled && p.code == 0 }
func (p *ProcessState) Pid() int {
	if p == nil {
		return -1
	}
	return p.pid
}
func (p *ProcessState) String() string {
	if p == nil {
		return "<nil>"
	}
	if p.signalled {
		return fmt.Sprintf("signal: %d", p.sig)
	}
	return fmt.Sprintf("exit status %d", p.code)
}
// Sys: the wait status as Linux encodes it (exit code in bits 8-15, terminating signal in bits 0-6)
func (p *ProcessState) Sys() any {
	if p == nil {
		return nil
	}
	if p.signalled {
		return syscall.WaitStatus(p.sig & 0x7f)
	}
	return syscall.WaitStatus((p.code & 0xff) << 8)
}
func (p *ProcessState) SystemTime() time.Duration { return 0 }
func (p *ProcessState) UserTime() time.Duration   { return 0 }

func (p *ProcessState) ExitCode() int {
	if p == nil {
		return -1
	}
	return p.code
}

type ExitError struct {
	*ProcessState
	msg string
}

func (e *ExitError) Error() string { return e.msg }

func Command(name string, arg ...string) *Cmd {
	return &Cmd{Path: name, Args: append([]string{name}, arg...)}
}

func CommandContext(ctx context.Context, name string, arg ...string) *Cmd {
	if ctx == nil {
		panic("nil Context")
	}
	c := Command(name, arg...)
	c.ctx = ctx
	return c
}

func LookPath(file string) (string, error) { return "/simbin/" + file, nil }

func (c *Cmd) StdoutPipe() (io.ReadCloser, error) {
	if c.Stdout != nil {
		return nil, errors.New("exec: Stdout already set")
	}
	if c.Process != nil {
		return nil, errors.New("exec: StdoutPipe after process started")
	}
	c.stdoutPipe = &Pipe{name: "stdout", w: W, writers: 1} // the parent's own write end, closed after Start
	c.Stdout = nopWriteCloser{}
	return pipeReader{c.stdoutPipe}, nil
}

func (c *Cmd) StderrPipe() (io.ReadCloser, error) {
	if c.Stderr != nil {
		return nil, errors.New("exec: Stderr already set")
	}
	if c.Process != nil {
		return nil, errors.New("exec: StderrPipe after process started")
	}
	c.stderrPipe = &Pipe{name: "stderr", w: W, writers: 1}
	c.Stderr = nopWriteCloser{}
	return pipeReader{c.stderrPipe}, nil
}

func (c *Cmd) StdinPipe() (io.WriteCloser, error) {
	return nopWriteCloser{}, nil
}

func (c *Cmd) start(kind string) error {
	w := W
	if w == nil {
		return errors.New("simos: no world")
	}
	if c.Process != nil {
		return errors.New("exec: already started")
	}
	simsync.Yield(simsync.SiteHarness)
	w.enter()
	defer w.leave()
	if c.ctx != nil {
		select {
		case <-c.ctx.Done():
			return c.ctx.Err()
		default:
		}
	}
	req := &SpawnReq{Path: c.Path, Args: c.Args, Env: c.Env, Dir: c.Dir, Kind: kind}
	token, sc := w.Resolve(req)
	if sc == nil {
		simsync.Abort(fmt.Sprintf("simos: no script for command %q", c.Args))
	}
	if c.Dir != "" {
		if st, err := os.Stat(c.Dir); err != nil || !st.IsDir() {
			w.Stats.StartFail++
			simlog.Add(simlog.Event{Kind: "os.execfail", Subj: token, A: "chdir " + strings.TrimPrefix(c.Dir, w.Strip)})
			for _, p := range []*Pipe{c.stdoutPipe, c.stderrPipe} {
				if p != nil {
					p.readClosed = true
					p.wake()
				}
			}
			return fmt.Errorf("fork/exec %s: chdir %s: no such file or directory", c.Path, c.Dir)
		}
	}
	if sc.StartErr != "" {
		w.Stats.StartFail++
		simlog.Add(simlog.Event{Kind: "os.execfail", Subj: token, A: sc.StartErr})
		// os/exec closes the pipes when Start fails
		for _, p := range []*Pipe{c.stdoutPipe, c.stderrPipe} {
			if p != nil {
				p.readClosed = true
				p.wake()
			}
		}
		return fmt.Errorf("fork/exec %s: %s", c.Path, sc.StartErr)
	}
	newGroup := c.SysProcAttr != nil && c.SysProcAttr.Setpgid
	if c.stdoutPipe != nil {
		c.stdoutPipe.errAt = sc.ReadErrAt
		c.stdoutPipe.chunkMode = sc.ChunkMode
	}
	if c.stderrPipe != nil {
		c.stderrPipe.chunkMode = sc.ChunkMode
	}
	// the event is logged before the process exists so that its own events follow it
	pid := PidBase + len(w.Procs)
	pgid := SelfPgid
	if newGroup {
		pgid = pid
	}
	simlog.Add(simlog.Event{Kind: "os.exec", Subj: token, Pid: pid, N: pgid, A: strings.Join(c.Args, " "), B: strings.TrimPrefix(c.Dir, w.Strip), Data: append([]string(nil), c.Env...)})
	p := w.spawn(token, sc, SelfPid, SelfPgid, newGroup, c.stdoutPipe, c.stderrPipe)
	// the child holds the write ends now; the parent closes its copies
	for _, pp := range []*Pipe{c.stdoutPipe, c.stderrPipe} {
		if pp != nil {
			pp.closeWriter()
		}
	}
	c.proc = p
	c.Process = &Process{Pid: p.Pid, proc: p}
	return nil
}

func (c *Cmd) Start() error { return c.start("proc") }

func (c *Cmd) Wait() error {
	if c.Process == nil {
		return errors.New("exec: not started")
	}
	if c.waited {
		return errors.New("exec: Wait was already called")
	}
	c.waited = true
	p := c.proc
	var ctxDone <-chan struct{}
	if c.ctx != nil {
		ctxDone = c.ctx.Done()
	}
	var ctxErr error
	if simsync.Select(simsync.SiteHarness, false, simsync.RecvCase((<-chan struct{})(p.dead)), simsync.RecvCase(ctxDone)) == 1 {
		// os/exec kills the process when the context is done
		ctxErr = c.ctx.Err()
		if c.Cancel != nil {
			_ = c.Cancel()
			if c.WaitDelay > 0 {
				tm := time.NewTimer(c.WaitDelay)
				if simsync.Select(simsync.SiteHarness, false, simsync.RecvCase((<-chan struct{})(p.dead)), simsync.RecvCase(tm.C)) == 1 {
					_ = Kill(p.Pid, 9)
				}
				tm.Stop()
			}
		} else {
			_ = Kill(p.Pid, 9)
		}
		simsync.Recv1(simsync.SiteHarness, (<-chan struct{})(p.dead))
	}
	W.enter()
	p.Reaped = true
	c.ProcessState = &ProcessState{code: p.ExitCode, pid: p.Pid, signalled: p.Signalled, sig: p.KilledBy}
	// Wait closes the parent's ends of the pipes after seeing the command exit
	for _, pp := range []*Pipe{c.stdoutPipe, c.stderrPipe} {
		if pp != nil {
			pp.readClosed = true
			pp.wake()
		}
	}
	simlog.Add(simlog.Event{Kind: "os.reap", Subj: p.Token, Pid: p.Pid, N: p.ExitCode})
	W.leave()
	_ = ctxErr // like os/exec: a command killed because its context ended reports the kill, not the context error
	if p.Signalled {
		return &ExitError{c.ProcessState, fmt.Sprintf("signal: %d", p.KilledBy)}
	}
	if p.ExitCode != 0 {
		return &ExitError{c.ProcessState, fmt.Sprintf("exit status %d", p.ExitCode)}
	}
	return nil
}

func (c *Cmd) Run() error {
	if err := c.start("run"); err != nil {
		return err
	}
	return c.Wait()
}

func (c *Cmd) Output() ([]byte, error) {
	if c.Stdout != nil {
		return nil, errors.New("exec: Stdout already set")
	}
	if err := c.start("output"); err != nil {
		return nil, err
	}
	err := c.Wait()
	return []byte(c.proc.Script.OutputText), err
}

// Signal mirrors os.Process.Signal.
func (p *Process) Signal(sig os.Signal) error {
	if p == nil || p.proc == nil {
		return errors.New("os: process not initialized")
	}
	s, ok := sig.(syscall.Signal)
	if !ok {
		return errors.New("os: unsupported signal type")
	}
	if p.proc.Reaped || !p.proc.Alive && p.proc.Reaped {
		return os.ErrProcessDone
	}
	return Kill(p.Pid, int(s))
}

func (p *Process) Kill() error { return p.Signal(syscall.SIGKILL) }

// Release mirrors os.Process.Release (nothing to release here).
func (p *Process) Release() error { return nil }

// String mirrors exec.Cmd.String.
func (c *Cmd) String() string { return strings.Join(append([]string{c.Path}, c.Args[1:]...), " ") }

// CombinedOutput mirrors exec.Cmd.CombinedOutput.
func (c *Cmd) CombinedOutput() ([]byte, error) {
	if c.Stderr != nil {
		return nil, errors.New("exec: Stderr already set")
	}
	out, err := c.Output()
	if c.proc != nil {
		out = append([]byte(c.proc.Script.ErrText), out...)
	}
	return out, err
}

// Environ mirrors exec.Cmd.Environ.
func (c *Cmd) Environ() []string { return append([]string(nil), c.Env...) }

var _ = time.Second
