package simos

import (
	"errors"
	"io"
	"io/fs"
	"syscall"

	"verifrt/simsync"
)

// Pipe is a simulated pipe: a byte queue with a count of open write ends. The read end
// blocks in the simulator (a park), never in the Go runtime.
type Pipe struct {
	name       string
	buf        []byte
	writers    int
	readClosed bool
	waitCh     chan struct{}
	nRead      int
	errAt      int // F6: EIO once this many bytes were delivered (0: never)
	chunkMode  int
	w          *World
}

func (p *Pipe) wake() {
	if p.waitCh != nil {
		close(p.waitCh)
		p.waitCh = nil
	}
}

func (p *Pipe) write(s string) {
	if p.readClosed {
		return // EPIPE for the writer; the simulated writers do not care
	}
	p.buf = append(p.buf, s...)
	p.wake()
}

func (p *Pipe) closeWriter() {
	p.writers--
	if p.writers <= 0 {
		p.wake()
	}
}

var errClosed = &fs.PathError{Op: "read", Path: "|0", Err: errors.New("file already closed")}

type pipeReader struct{ p *Pipe }

func (r pipeReader) Read(b []byte) (int, error) {
	p := r.p
	simsync.Yield(simsync.SiteHarness)
	for {
		p.w.enter()
		if p.readClosed {
			p.w.leave()
			return 0, errClosed
		}
		if p.errAt > 0 && p.nRead >= p.errAt {
			p.w.Stats.ReadErr++
			p.w.leave()
			return 0, &fs.PathError{Op: "read", Path: "|0", Err: syscall.EIO}
		}
		if len(p.buf) > 0 {
			n := len(p.buf)
			if n > len(b) {
				n = len(b)
			}
			if p.errAt > 0 && p.nRead+n > p.errAt {
				n = p.errAt - p.nRead
			}
			switch p.chunkMode {
			case 1:
				n = 1 + simsync.Choose(simsync.StChunk, n)
			case 2:
				n = 1
			}
			for i := 0; i < n; i++ {
				b[i] = p.buf[i]
			}
			p.buf = p.buf[n:]
			p.nRead += n
			p.w.leave()
			return n, nil
		}
		if p.writers <= 0 {
			p.w.leave()
			return 0, io.EOF
		}
		if p.waitCh == nil {
			p.waitCh = make(chan struct{})
		}
		ch := p.waitCh
		p.w.leave()
		simsync.Recv1(simsync.SiteHarness, (<-chan struct{})(ch))
	}
}

func (r pipeReader) Close() error {
	p := r.p
	p.w.enter()
	p.readClosed = true
	p.wake()
	p.w.leave()
	return nil
}

type nopWriteCloser struct{}

func (nopWriteCloser) Write(b []byte) (int, error) { return len(b), nil }
func (nopWriteCloser) Close() error                { return nil }
