// Package simos is the simulated operating system the system under test runs on: a
// process table with process groups and signals, pipes, and a facade with the API of
// os/exec that src/command is compiled against. What a launched command does is decided
// by a Script that the harness resolves from the command line.
package simos

import (
	"fmt"
	"syscall"
	"time"
	"unsafe"

	"verifrt/simlog"
	"verifrt/simsync"
)

// OutChunk is a piece of output written at a given time after launch.
type OutChunk struct {
	AtMs   int    `json:"at_ms"`
	Stream int    `json:"stream"` // 1 stdout, 2 stderr
	Data   string `json:"data"`
}

// Script describes the behaviour of one launch of a command.
type Script struct {
	StartErr   string     `json:"start_err,omitempty"` // F1: Start fails with this error
	LifeMs     int        `json:"life_ms"`             // <0: runs until it receives a fatal signal
	Exit       int        `json:"exit"`                // exit code when the life time ends
	Out        []OutChunk `json:"out,omitempty"`
	OutputText string     `json:"output_text,omitempty"` // stdout for Output() callers (env_cmds)
	ErrText    string     `json:"err_text,omitempty"`    // what such a command writes to stderr (CombinedOutput() callers get it too)
	TermLagMs  int        `json:"term_lag_ms"`           // time between a fatal signal and death
	Ignore     []int      `json:"ignore,omitempty"`      // signals this process ignores (never SIGKILL)
	ExitOnSig  int        `json:"exit_on_sig"`           // 0: dies "signalled" (exit code -1); else exits with this code on a fatal signal
	CrashSig   int        `json:"crash_sig,omitempty"`   // at the end of its life the command dies of this signal by itself (a crash): exit code -1
	Children   []Script   `json:"children,omitempty"`    // forked at launch
	NewGroup   bool       `json:"new_group,omitempty"`   // (child) leaves the parent's process group
	HoldsPipes bool       `json:"holds_pipes,omitempty"` // (child) keeps the parent's stdout/stderr open
	ReadErrAt  int        `json:"read_err_at,omitempty"` // F6: stdout read fails with EIO once this many bytes were read (0: never)
	ChunkMode  int        `json:"chunk_mode,omitempty"`  // 0 all available, 1 PRNG-chosen sizes, 2 byte by byte
	KillToken  string     `json:"kill_token,omitempty"`  // (shutdown commands) at AtKillMs send KillSig to the live commands with this token
	KillSig    int        `json:"kill_sig,omitempty"`
	KillAtMs   int        `json:"kill_at_ms,omitempty"`
}

// SpawnReq is what the resolver sees.
type SpawnReq struct {
	Path string
	Args []string
	Env  []string
	Dir  string
	Kind string // "proc" for Start(), "run" for Run(), "output" for Output()
}

type Proc struct {
	Pid, Pgid, Ppid int
	Token           string
	Script          *Script
	Alive           bool
	Reaped          bool
	ExitCode        int
	Signalled       bool // died from a signal (vs. its script)
	KilledBy        int
	Started         time.Duration
	Died            time.Duration
	sigCh           chan int
	dead            chan struct{}
	stdout, stderr  *Pipe
	dying           bool
	Sigs            []int // signals received, in order
}

const (
	PidBase = 4300000 // above the kernel's pid_max: /proc look-ups fail deterministically
	SelfPid = 4299999
	SelfPgid = 4299999
)

type World struct {
	tok      int // race-detector sync token ("big kernel lock" happens-before edges)
	Procs    []*Proc
	Resolve  func(req *SpawnReq) (token string, sc *Script)
	KillHook func(pid, sig int) error // F14: optional failure injection
	Strip    string                   // path prefix (the run's scratch directory) left out of logged paths
	Stats    struct {
		Execs, Exits, Kills, StartFail, ReadErr, HeldPipes, Esrch int
	}
}

// W is the world of the run in progress.
var W *World

func NewWorld(resolve func(*SpawnReq) (string, *Script)) *World {
	return &World{Resolve: resolve}
}

func (w *World) enter() { simsync.RaceAcquire(unsafe.Pointer(&w.tok)) }
func (w *World) leave() { simsync.RaceRelease(unsafe.Pointer(&w.tok)) }

func (w *World) find(pid int) *Proc {
	i := pid - PidBase
	if i < 0 || i >= len(w.Procs) {
		return nil
	}
	return w.Procs[i]
}

var fatalIgnoredByDefault = [...]int{17, 18, 19, 20, 21, 22, 23, 28}

func (p *Proc) ignores(sig int) bool {
	if sig == 9 {
		return false
	}
	for _, s := range fatalIgnoredByDefault {
		if s == sig {
			return true
		}
	}
	for _, s := range p.Script.Ignore {
		if s == sig {
			return true
		}
	}
	return false
}

// spawn creates the process and its children and starts their tasks.
func (w *World) spawn(token string, sc *Script, ppid, pgid int, newGroup bool, stdout, stderr *Pipe) *Proc {
	p := &Proc{Pid: PidBase + len(w.Procs), Ppid: ppid, Token: token, Script: sc, Alive: true,
		sigCh: make(chan int, 64), dead: make(chan struct{}), Started: simsync.Elapsed(), stdout: stdout, stderr: stderr}
	if newGroup {
		p.Pgid = p.Pid
	} else {
		p.Pgid = pgid
	}
	w.Procs = append(w.Procs, p)
	w.Stats.Execs++
	if stdout != nil {
		stdout.writers++
	}
	if stderr != nil {
		stderr.writers++
	}
	for i := range sc.Children {
		c := &sc.Children[i]
		var so, se *Pipe
		if c.HoldsPipes {
			so, se = stdout, stderr
			w.Stats.HeldPipes++
		}
		cp := w.spawn(fmt.Sprintf("%s/c%d", token, i), c, p.Pid, p.Pgid, c.NewGroup, so, se)
		simlog.Add(simlog.Event{Kind: "os.fork", Subj: token, Pid: cp.Pid, N: p.Pid, A: fmt.Sprintf("pgid=%d holds_pipes=%v", cp.Pgid, c.HoldsPipes), B: cp.Token})
	}
	simsync.GoNamed("proc:"+token, func() { w.life(p) })
	return p
}

// life is the body of a simulated process.
func (w *World) life(p *Proc) {
	sc := p.Script
	start := time.Now()
	if sc.KillToken != "" {
		if sc.KillAtMs > 0 {
			simsync.Sleep(simsync.SiteHarness, time.Duration(sc.KillAtMs)*time.Millisecond)
		}
		w.enter()
		for _, q := range w.Procs {
			if q.Alive && q.Token == sc.KillToken && q != p {
				select {
				case q.sigCh <- sc.KillSig:
				default:
				}
				simlog.Add(simlog.Event{Kind: "os.kill", Pid: q.Pid, N: sc.KillSig, A: fmt.Sprintf("delivered: %d", q.Pid), B: "by " + p.Token})
			}
		}
		w.leave()
	}
	next := 0
	code, signalled, by := sc.Exit, false, 0
	emit := func(ch OutChunk) {
		if ch.Stream == 0 {
			// the command closes its own stdout and stderr and lives on (exec >/dev/null 2>&1)
			if p.stdout != nil {
				p.stdout.closeWriter()
			}
			if p.stderr != nil {
				p.stderr.closeWriter()
			}
			p.stdout, p.stderr = nil, nil
			simlog.Add(simlog.Event{Kind: "os.closeout", Subj: p.Token, Pid: p.Pid})
			return
		}
		pp := p.stdout
		if ch.Stream == 2 {
			pp = p.stderr
		}
		if pp != nil {
			pp.write(ch.Data)
		}
		simlog.Add(simlog.Event{Kind: "os.write", Subj: p.Token, Pid: p.Pid, N: ch.Stream, A: fmt.Sprintf("%q", clip(ch.Data, 60)), Data: ch.Data})
	}
loop:
	for {
		// exactly one timer per wait: two timers firing at the same fake instant would be
		// ordered by the Go runtime, not by the simulator
		isOut := false
		var at time.Duration = -1
		if sc.LifeMs >= 0 {
			at = time.Duration(sc.LifeMs) * time.Millisecond
		}
		if next < len(sc.Out) {
			o := time.Duration(sc.Out[next].AtMs) * time.Millisecond
			if at < 0 || o <= at {
				at, isOut = o, true
			}
		}
		var tmC <-chan time.Time
		var tm *time.Timer
		if at >= 0 {
			d := at - time.Since(start)
			if d < 0 {
				d = 0
			}
			tm = time.NewTimer(d)
			tmC = tm.C
		}
		cs := simsync.RecvCase(p.sigCh)
		i := simsync.Select(simsync.SiteHarness, false, cs, simsync.RecvCase(tmC))
		if tm != nil {
			tm.Stop()
		}
		w.enter()
		if i == 0 {
			sig := cs.Val()
			p.Sigs = append(p.Sigs, sig)
			if p.ignores(sig) {
				simlog.Add(simlog.Event{Kind: "os.sigign", Subj: p.Token, Pid: p.Pid, N: sig})
				w.leave()
				continue
			}
			lag := time.Duration(sc.TermLagMs) * time.Millisecond
			if sig == 9 {
				lag = 0
			}
			w.leave()
			if lag > 0 {
				// a SIGKILL during the lag kills at once
				tm := time.NewTimer(lag)
				for {
					c2 := simsync.RecvCase(p.sigCh)
					j := simsync.Select(simsync.SiteHarness, false, c2, simsync.RecvCase(tm.C))
					if j == 1 {
						break
					}
					p.Sigs = append(p.Sigs, c2.Val())
					if c2.Val() == 9 {
						sig = 9
						break
					}
				}
				tm.Stop()
			}
			w.enter()
			if sc.ExitOnSig != 0 && sig != 9 {
				code, signalled, by = sc.ExitOnSig, false, sig
			} else {
				code, signalled, by = -1, true, sig
			}
			w.leave()
			break loop
		}
		if isOut {
			emit(sc.Out[next])
			next++
			w.leave()
			continue
		}
		w.leave()
		break loop
	}
	crashed := false
	if !signalled && by == 0 && sc.CrashSig != 0 {
		code, signalled, crashed = -1, true, true
	}
	w.enter()
	p.Alive = false
	p.ExitCode = code
	p.Signalled = signalled
	p.KilledBy = by
	p.Died = simsync.Elapsed()
	w.Stats.Exits++
	cause := "script"
	if by != 0 {
		cause = fmt.Sprintf("signal %d", by)
	}
	if crashed {
		cause = fmt.Sprintf("crashed with signal %d", sc.CrashSig) // nobody sent it
	}
	simlog.Add(simlog.Event{Kind: "os.exit", Subj: p.Token, Pid: p.Pid, N: code, A: cause})
	if p.stdout != nil {
		p.stdout.closeWriter()
	}
	if p.stderr != nil {
		p.stderr.closeWriter()
	}
	close(p.dead)
	w.leave()
}

func clip(s string, n int) string {
	if len(s) > n {
		return s[:n] + "..."
	}
	return s
}

// Kill implements kill(2) on the simulated process table.
func Kill(pid int, sig int) error {
	w := W
	if w == nil {
		return syscall.ESRCH
	}
	simsync.Yield(simsync.SiteHarness)
	w.enter()
	defer w.leave()
	w.Stats.Kills++
	if w.KillHook != nil {
		if err := w.KillHook(pid, sig); err != nil {
			simlog.Add(simlog.Event{Kind: "os.kill", Pid: pid, N: sig, A: "injected " + err.Error()})
			return err
		}
	}
	if sig < 0 || sig > 64 {
		return syscall.EINVAL
	}
	n := 0
	var targets []*Proc
	if pid > 0 {
		p := w.find(pid)
		if p != nil && !p.Reaped {
			targets = append(targets, p)
			n++
		}
	} else if pid < -1 {
		for _, p := range w.Procs {
			if p.Pgid == -pid && !p.Reaped && (p.Alive || p.Ppid == SelfPid) {
				// zombies of our own children still count as group members until reaped
				targets = append(targets, p)
				n++
			}
		}
	} else {
		return syscall.EINVAL
	}
	if n == 0 {
		w.Stats.Esrch++
		simlog.Add(simlog.Event{Kind: "os.kill", Pid: pid, N: sig, A: "ESRCH"})
		return syscall.ESRCH
	}
	desc := ""
	for _, p := range targets {
		if p.Alive && sig != 0 {
			select {
			case p.sigCh <- sig:
			default:
			}
			desc += fmt.Sprintf(" %d", p.Pid)
		}
	}
	simlog.Add(simlog.Event{Kind: "os.kill", Pid: pid, N: sig, A: "delivered:" + desc})
	return nil
}

// Getpgid implements getpgid(2).
func Getpgid(pid int) (int, error) {
	w := W
	if w == nil {
		return 0, syscall.ESRCH
	}
	w.enter()
	defer w.leave()
	p := w.find(pid)
	if p == nil || p.Reaped {
		w.Stats.Esrch++
		return -1, syscall.ESRCH
	}
	return p.Pgid, nil
}

// AliveIn reports the live processes whose token starts with the given prefix.
func (w *World) AliveTokens() []string {
	var r []string
	for _, p := range w.Procs {
		if p.Alive {
			r = append(r, p.Token)
		}
	}
	return r
}
