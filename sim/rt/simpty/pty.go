// Package simpty replaces github.com/creack/pty: PTY processes are not simulated; a
// scenario that reaches this is a harness error.
package simpty

import (
	"os"

	"verifrt/simos"
	"verifrt/simsync"
)

func Start(c *simos.Cmd) (*os.File, error) {
	simsync.Abort("PTY process started: not simulated")
	return nil, nil
}
