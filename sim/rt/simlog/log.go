// Package simlog is the totally ordered event log of a simulated run. Every oracle is a
// function of this log. Appending never draws from a PRNG and reads only the fake clock.
package simlog

import (
	"fmt"
	"hash/fnv"
	"time"

	"verifrt/simsync"
)

type Event struct {
	Seq  int           `json:"seq"`
	Step int           `json:"step"`
	T    time.Duration `json:"t"`
	Task int           `json:"task"`
	Kind string        `json:"kind"`
	Subj string        `json:"subj,omitempty"`
	Pid  int           `json:"pid,omitempty"`
	N    int           `json:"n,omitempty"`
	A    string        `json:"a,omitempty"`
	B    string        `json:"b,omitempty"`
	Data any           `json:"data,omitempty"`
}

func (e *Event) String() string {
	s := fmt.Sprintf("%06d %9.3fs t%-3d %-10s %s", e.Step, e.T.Seconds(), e.Task, e.Kind, e.Subj)
	if e.Pid != 0 {
		s += fmt.Sprintf(" pid=%d", e.Pid)
	}
	if e.N != 0 {
		s += fmt.Sprintf(" n=%d", e.N)
	}
	if e.A != "" {
		s += " " + e.A
	}
	if e.B != "" {
		s += " | " + e.B
	}
	if e.Data != nil && (e.Kind == "api.ret" || e.Kind == "lb.r.ret") {
		d := fmt.Sprintf("%v", e.Data)
		if len(d) > 160 {
			d = d[:160] + "..."
		}
		s += " => " + d
	}
	return s
}

type Log struct {
	Events []Event
}

// Cur is the log of the run in progress.
var Cur *Log

func New() *Log { return &Log{Events: make([]Event, 0, 4096)} }

// Add appends an event stamped with the scheduler step and the fake time.
//
//go:norace
func Add(e Event) {
	l := Cur
	if l == nil {
		return
	}
	e.Seq = len(l.Events)
	e.Step = simsync.Step()
	e.T = simsync.Elapsed()
	if t := simsync.CurrentTask(); t != nil {
		e.Task = t.ID
	} else {
		e.Task = -1
	}
	l.Events = append(l.Events, e)
	if OnAdd != nil {
		OnAdd(&l.Events[len(l.Events)-1])
	}
}

// OnAdd, when set, sees every event as it is recorded (the harness uses it to wake a task at
// the very step at which the supervisor changes a state).
var OnAdd func(e *Event)

// Hash is the trace hash: everything except payloads that contain addresses.
func (l *Log) Hash() uint64 {
	h := fnv.New64a()
	for i := range l.Events {
		e := &l.Events[i]
		fmt.Fprintf(h, "%d|%d|%d|%s|%s|%d|%d|%s|%s\n", e.Step, e.T, e.Task, e.Kind, e.Subj, e.Pid, e.N, e.A, e.B)
	}
	return h.Sum64()
}
