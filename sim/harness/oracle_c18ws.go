package harness

import (
	"fmt"
	"strings"

	"verifrt/simos"
)

// ---- C18, websocket arm: followers of a running process through the real handler ----

func genC18WS(r *R, sc *Scenario) {
	sc.LogBuf = nil
	sc.Arm = "ws"
	sc.Rest = true
	spec := &ProjectSpec{}
	sc.Project = spec
	sc.Scripts = map[string]*TokenScript{}
	p := &ProcSpec{Name: "w", Token: "w"}
	spec.Procs = append(spec.Procs, p)
	n := Pick(r, 30, 120, 400, 700)
	gap := Pick(r, 1, 5, 20)
	s := simos.Script{LifeMs: n*gap + 500, ChunkMode: r.Intn(2)}
	for i := 0; i < n; i++ {
		s.Out = append(s.Out, simos.OutChunk{AtMs: 200 + i*gap, Stream: 1, Data: fmt.Sprintf("w/%d\n", i)})
	}
	if r.P(450) {
		// now and then an empty line
		for i := 3; i < n; i += Pick(r, 4, 7, 50) {
			s.Out[i].Data += "\n"
		}
	}
	sc.Scripts["w"] = &TokenScript{Launches: []simos.Script{s}}
	two := r.P(350)
	if two {
		// a second process followed over the same connection
		spec.Procs = append(spec.Procs, &ProcSpec{Name: "x", Token: "x"})
		s2 := simos.Script{LifeMs: n*gap + 500, ChunkMode: r.Intn(2)}
		for i := 0; i < n; i++ {
			s2.Out = append(s2.Out, simos.OutChunk{AtMs: 200 + i*gap, Stream: 1, Data: fmt.Sprintf("x/%d\n", i)})
		}
		sc.Scripts["x"] = &TokenScript{Launches: []simos.Script{s2}}
	}
	nf := r.Range(1, 3)
	for i := 0; i < nf; i++ {
		proc := "w"
		if two && r.P(700) {
			proc = "w,x"
		}
		f := WSFollower{Name: fmt.Sprintf("f%d", i), Proc: proc, Offset: Pick(r, 0, 1, 5, 50, 300), AtMs: Pick(r, 0, 100, 200+n*gap/3, 200+n*gap/2),
			Mode: Pick(r, "read", "read", "read", "stall", "disconnect"), BufBytes: Pick(r, 256, 4096, 65536)}
		if f.Mode == "read" && len(strings.Split(proc, ",")) == 1 && r.P(450) {
			f.Mode = "lib" // through the client library's LogClient
		}
		if f.Mode != "read" && f.Mode != "lib" {
			f.After = Pick(r, 0, 1, 10, 50)
			f.StallMs = Pick(r, -1, -1, 2000)
		}
		sc.WS = append(sc.WS, f)
	}
	sc.Observe = true
	sc.RunForMs = 200 + n*gap + 20000
	sc.QuietMs = 1000
}

func checkC18WS(sc *Scenario, res *RunResult, t *Truth) []Violation {
	var vs []Violation
	add := func(class, disc, msg string, seq int) {
		vs = append(vs, Violation{"C18", class, disc, msg, seq})
	}
	for _, p := range res.Out.Panics {
		add("follower-crashes-the-supervisor", topSutFrame(p.Stack), fmt.Sprintf("panic in %s: %s", p.Task, p.Value), 0)
		return vs
	}
	// what each process wrote, in order
	type written struct {
		lines   []string
		idx     map[string]int
		seqs    []int
		empties int
	}
	procs := map[string]*written{}
	for _, p := range sc.Project.Procs {
		w := &written{idx: map[string]int{}}
		for _, in := range t.ByRep[p.Name] {
			for _, wr := range in.Writes {
				for _, ln := range splitLines(wr.Text) {
					if ln == "" {
						w.empties++ // not unique: they travel, but nothing is demanded of them
						continue
					}
					w.idx[ln] = len(w.lines)
					w.lines = append(w.lines, ln)
					w.seqs = append(w.seqs, wr.Seq)
				}
			}
		}
		procs[p.Name] = w
	}
	type fol struct {
		spec            *WSFollower
		got             map[string][]string // per followed process
		dial, open, end int
		endKind         string
	}
	fols := map[string]*fol{}
	for i := range sc.WS {
		fols[sc.WS[i].Name] = &fol{spec: &sc.WS[i], dial: -1, open: -1, end: -1, got: map[string][]string{}}
	}
	for i := range t.Events {
		e := &t.Events[i]
		f := fols[e.Subj]
		if f == nil {
			continue
		}
		switch e.Kind {
		case "ws.dial":
			f.dial = e.Seq
		case "ws.open":
			f.open = e.Seq
		case "ws.line":
			f.got[e.B] = append(f.got[e.B], e.A)
		case "ws.closed", "ws.disconnect", "ws.stall", "ws.dial.err":
			if f.end < 0 {
				f.end, f.endKind = e.Seq, e.Kind+" "+e.A
			}
		}
	}
	// a follower that stops reading (or disconnects) holds nobody up
	cause := "no-idle-follower"
	anyStall := false
	for _, name := range sortedKeys(fols) {
		switch f := fols[name]; {
		case f.spec.Mode == "stall" && f.spec.StallMs < 0:
			cause = "follower-stopped-reading"
		case f.spec.Mode == "disconnect" && cause == "no-idle-follower":
			cause = "follower-disconnected"
		}
		if fols[name].spec.Mode == "stall" {
			anyStall = true // while a follower stalls the log may lag behind what was written
		}
	}
	if t.Hang || t.RunRet < 0 {
		add("follower-holds-up-the-process", cause, "a followed process never completed (Run() did not return): its output handling is blocked behind a follower", t.EndSeq)
		return vs
	}
	for _, p := range sc.Project.Procs {
		if st, ok := t.Final.States[p.Name]; ok && st.Status != "Completed" {
			add("follower-holds-up-the-process", cause, fmt.Sprintf("the followed process %s is reported %s after its command exited", p.Name, st.Status), t.EndSeq)
			return vs
		}
	}
	for _, name := range sortedKeys(fols) {
		f := fols[name]
		if f.dial < 0 {
			continue
		}
		for _, pn := range strings.Split(f.spec.Proc, ",") {
			w := procs[pn]
			if w == nil {
				continue
			}
			writtenBefore := func(seq int) int {
				n := 0
				for _, s := range w.seqs {
					if s < seq {
						n++
					}
				}
				return n
			}
			if f.open < 0 {
				if f.endKind != "" && writtenBefore(f.dial) < len(w.lines) {
					add("follower-refused", "", fmt.Sprintf("follower %s could not subscribe: %s", name, f.endKind), f.end)
					return vs
				}
				continue
			}
			got := f.got[pn]
			// the lines received are a gap-free, duplicate-free run of what was written
			prev, first := -1, -1
			for k, ln := range got {
				j, ok := w.idx[ln]
				if !ok {
					continue // a line the supervisor itself put into the log
				}
				if first < 0 {
					first = j
				}
				if prev >= 0 && j != prev+1 {
					kind := "follower-gap"
					if j <= prev {
						kind = "follower-duplicate-or-reordered"
					}
					add(kind, "websocket", fmt.Sprintf("follower %s of %s (tail %d) received %q right after %q (message %d)", name, pn, f.spec.Offset, ln, w.lines[prev], k), f.open)
					return vs
				}
				prev = j
			}
			if first >= 0 && !anyStall && len(strings.Split(f.spec.Proc, ",")) == 1 && w.empties == 0 { // (empty lines take places in a tail)
				// the subscription took place between the dial and the first message: the log held
				// between wLo and wHi lines then (whole fake instants, so that the reader's own lag
				// does not matter), and the tail starts offset lines before its end
				dialT, openT := t.Events[f.dial].T, t.Events[f.open].T
				wLo, wHi := 0, 0
				for _, sq := range w.seqs {
					if t.Events[sq].T < dialT {
						wLo++
					}
					if t.Events[sq].T <= openT {
						wHi++
					}
				}
				lo, hi := wLo-f.spec.Offset, wHi-f.spec.Offset
				if lo < 0 {
					lo = 0
				}
				if hi < 0 {
					hi = 0
				}
				if first < lo && wHi <= 1000 {
					add("follower-tail-too-long", "websocket", fmt.Sprintf("follower %s asked for a tail of %d lines and connected when %d..%d lines had been written, but received lines from %q on", name, f.spec.Offset, wLo, wHi, w.lines[first]), f.open)
					return vs
				}
				if first > hi {
					add("follower-gap-at-hand-over", "websocket", fmt.Sprintf("follower %s asked for a tail of %d lines and connected when %d..%d lines had been written, but the first line it received is %q", name, f.spec.Offset, wLo, wHi, w.lines[first]), f.open)
					return vs
				}
			}
			if (f.spec.Mode == "read" || f.spec.Mode == "lib") && len(w.lines) > 0 && writtenBefore(f.open) < len(w.lines) && !anyStall {
				if prev != len(w.lines)-1 {
					last := "nothing"
					if prev >= 0 {
						last = w.lines[prev]
					}
					add("follower-missed-the-end", "websocket", fmt.Sprintf("follower %s kept reading but the last line of %s it received is %s; the process wrote %d lines (the last is %q)", name, pn, last, len(w.lines), w.lines[len(w.lines)-1]), f.open)
					return vs
				}
			}
		}
	}
	for _, p := range sc.Project.Procs {
		w := procs[p.Name]
		if cause == "follower-stopped-reading" {
			// the log of a process that is held up for ever cannot even be read: the same
			// finding (follower-holds-up-the-process) seen from the other side
			break
		}
		if got := res.FinalLogs[p.Name]; len(w.lines) > 0 && len(w.lines) <= 1000 {
			have := map[string]bool{}
			for _, l := range got {
				have[l] = true
			}
			for _, l := range w.lines {
				if !have[l] {
					add("line-lost-behind-follower", "", fmt.Sprintf("line %q of the followed process %s is not in its log", l, p.Name), t.EndSeq)
					return vs
				}
			}
		}
	}
	return vs
}

func splitLines(s string) []string {
	var r []string
	cur := ""
	for _, c := range s {
		if c == '\n' {
			r = append(r, cur)
			cur = ""
		} else {
			cur += string(c)
		}
	}
	if cur != "" {
		r = append(r, cur)
	}
	return r
}
