package harness

import (
	"fmt"
	"time"

	"verifrt/simos"
)

// ---- C10: health probes ----

func effInt(v *int, min, def int) int {
	if v == nil || *v < min {
		return def
	}
	return *v
}

// legalProbe: whatever was configured, the effective parameters are legal
func legalProbe(name, kind string, p *ProbeLite) string {
	switch {
	case p == nil:
		return ""
	case p.InitialDelay < 0:
		return fmt.Sprintf("%s: effective initial delay of the %s probe is %d", name, kind, p.InitialDelay)
	case p.Period < 1:
		return fmt.Sprintf("%s: effective period of the %s probe is %d", name, kind, p.Period)
	case p.Timeout < 1:
		return fmt.Sprintf("%s: effective time-out of the %s probe is %d", name, kind, p.Timeout)
	case p.Success < 1:
		return fmt.Sprintf("%s: effective success threshold of the %s probe is %d", name, kind, p.Success)
	case p.Failure < 1:
		return fmt.Sprintf("%s: effective failure threshold of the %s probe is %d", name, kind, p.Failure)
	case p.HTTP && (p.NumPort < 0 || p.NumPort > 65535):
		return fmt.Sprintf("%s: effective port of the %s probe is %d", name, kind, p.NumPort)
	}
	return ""
}

func checkC10(sc *Scenario, res *RunResult, t *Truth) []Violation {
	var vs []Violation
	sd := t.firstShutdownSeq(sc)
	for _, c := range t.Calls {
		if a, ok := c.Data.(*Audit); ok && a != nil && c.Client == "params" {
			for _, p := range sc.Project.Procs {
				inf, ok := a.Infos[p.Name]
				if !ok || inf.Err != "" {
					continue
				}
				if (p.Readiness != nil) != (inf.Readiness != nil) || (p.Liveness != nil) != (inf.Liveness != nil) {
					vs = append(vs, Violation{"C10", "probe-configuration-lost", "", fmt.Sprintf("%s: configured probes readiness=%v liveness=%v, reported readiness=%v liveness=%v", p.Name, p.Readiness != nil, p.Liveness != nil, inf.Readiness != nil, inf.Liveness != nil), c.RetSeq})
					continue
				}
				for _, m := range []string{legalProbe(p.Name, "readiness", inf.Readiness), legalProbe(p.Name, "liveness", inf.Liveness)} {
					if m != "" {
						vs = append(vs, Violation{"C10", "illegal-effective-probe-parameter", "", m, c.RetSeq})
					}
				}
			}
		}
	}
	vs = append(vs, checkC10Daemon(sc, t, sd)...)
	for _, p := range sc.Project.Procs {
		if p.Readiness == nil || p.IsDaemon || p.Replicas > 1 {
			continue
		}
		rep := p.Name
		launches := t.ByRep[rep]
		probes := t.ByToken["simprobe:"+p.Readiness.Token]
		delay := effInt(p.Readiness.InitialDelay, 0, 0)
		_ = effInt(p.Readiness.Period, 1, 10)
		timeout := effInt(p.Readiness.Timeout, 1, 1)
		threshold := effInt(p.Readiness.FailureThreshold, 1, 3)
		// probe runs per launch
		runsOf := func(li int) []*Inst {
			var r []*Inst
			lo := launches[li].ExecSeq
			hi := 1 << 60
			if li+1 < len(launches) {
				hi = launches[li+1].ExecSeq
			}
			// a stopped prober may still start a run or two (its results are dropped): runs of
			// a prober task that was already probing before this launch are not this launch's
			old := map[int]bool{}
			for _, pr := range probes {
				if pr.ExecSeq < lo {
					old[pr.ExecTask] = true
				}
			}
			for _, pr := range probes {
				if pr.ExecSeq > lo && pr.ExecSeq < hi && !old[pr.ExecTask] {
					r = append(r, pr)
				}
			}
			return r
		}
		ok := func(pr *Inst) bool { return pr.ExitSeq >= 0 && pr.Code == 0 && pr.BySig == 0 }
		for li, L := range launches {
			runs := runsOf(li)
			// effective parameters, read off the fake clock
			for i, pr := range runs {
				if i == 0 {
					if d := pr.ExecT - L.ExecT; d < time.Duration(delay)*time.Second {
						vs = append(vs, Violation{"C10", "probe-before-initial-delay", "", fmt.Sprintf("%s: first probe run %v after the launch; initial delay is %ds", rep, d, delay), pr.ExecSeq})
					}
				} else {
					// consecutive runs of the same prober (ticker goroutine) are at least 1s apart
					for j := i - 1; j >= 0; j-- {
						if runs[j].ExecTask == pr.ExecTask {
							if d := pr.ExecT - runs[j].ExecT; d < time.Second {
								vs = append(vs, Violation{"C10", "probe-period-below-1s", "", fmt.Sprintf("%s: probe runs of one prober started %v apart", rep, d), pr.ExecSeq})
							}
							break
						}
					}
				}
				if pr.BySig == 9 && pr.ExitSeq >= 0 {
					if d := pr.ExitT - pr.ExecT; d < time.Duration(timeout)*time.Second {
						vs = append(vs, Violation{"C10", "probe-killed-before-timeout", "", fmt.Sprintf("%s: a hanging probe command was killed after %v; the time-out is %ds (minimum 1s)", rep, d, timeout), pr.ExitSeq})
					}
				}
			}
			// threshold: consecutive failures => stop; never earlier. The prober keeps running
			// (and counting) across automatic restarts, so consecutive failures are counted
			// over all probe runs, not per launch.
			fatalAt := -1
			{
				consec := 0
				for _, pr := range runs {
					if pr.ExitSeq < 0 {
						continue
					}
					if L.ExitSeq >= 0 && pr.ExitSeq > L.ExitSeq {
						break
					}
					if ok(pr) {
						consec = 0
					} else {
						consec++
					}
					if consec >= threshold && fatalAt < 0 {
						fatalAt = pr.ExitSeq
					}
				}
			}
			userStop := func(before int) bool {
				for _, c := range t.stopCalls(rep) {
					if c.CallSeq < before {
						return true
					}
				}
				return sd >= 0 && sd < before
			}
			var firstKill *KillEv
			for i := range L.Kills {
				if firstKill == nil || L.Kills[i].Seq < firstKill.Seq {
					firstKill = &L.Kills[i]
				}
			}
			failedBefore := func(seq int) int {
				n := 0
				for _, pr := range runs {
					if pr.ExitSeq < 0 || pr.ExitSeq > seq {
						continue
					}
					if ok(pr) {
						n = 0
					} else {
						n++
					}
				}
				return n
			}
			if firstKill != nil && !userStop(firstKill.Seq+1) && (failedBefore(firstKill.Seq) == 0 || fatalAt < 0 || firstKill.Seq < fatalAt) {
				vs = append(vs, Violation{"C10", "stopped-before-failure-threshold", fmt.Sprintf("threshold=%d", threshold), fmt.Sprintf("%s was signalled at seq %d after fewer than %d consecutive probe failures of this launch and without a stop request", rep, firstKill.Seq, threshold), firstKill.Seq})
			}
			// (a command that ends by itself at the very instant of the fatal probe result needs no signal)
			if fatalAt >= 0 && (L.ExitSeq < 0 || (L.ExitSeq > fatalAt && L.ExitT > t.Events[fatalAt].T)) && !userStop(fatalAt) {
				if firstKill == nil {
					if t.EndT-t.Events[fatalAt].T > 3*time.Second {
						vs = append(vs, Violation{"C10", "not-stopped-after-failure-threshold", fmt.Sprintf("threshold=%d", threshold), fmt.Sprintf("%s: %d consecutive probe failures (the last at seq %d) but the process was never signalled", rep, threshold, fatalAt), fatalAt})
					}
				} else if p.StopTimeout != nil && firstKill.Sig != 9 && !userStop(t.firstSeqAtOrAfter(int64(firstKill.T+time.Duration(*p.StopTimeout+2)*time.Second))) {
					// the stop the probe triggered is a stop like any other: a command that
					// does not die of the signal is killed when the time-out has passed
					due := firstKill.T + time.Duration(*p.StopTimeout)*time.Second
					killed := false
					for _, k := range L.Kills {
						if k.Sig == 9 {
							killed = true
						}
					}
					if !killed && (L.ExitSeq < 0 || L.ExitT > due+time.Second) && t.EndT > due+2*time.Second {
						vs = append(vs, Violation{"C10", "no-sigkill-after-probe-stop", "", fmt.Sprintf("%s was sent signal %d at t=%v after %d consecutive readiness failures, did not die, and was not killed when its shutdown time-out (%ds) had passed", rep, firstKill.Sig, firstKill.T, threshold, *p.StopTimeout), firstKill.Seq})
					}
				}
				if firstKill != nil && L.ExitSeq >= 0 && !userStop(L.ExitSeq+1) {
					// stopped because of the probe: relaunched iff the policy says so
					owed := restartOwed(p, L.Code, li)
					var next *Inst
					if li+1 < len(launches) {
						next = launches[li+1]
					}
					if owed && next == nil && t.EndT-L.ExitT > backoffOf(p)+5*time.Second && !userStop(t.EndSeq) {
						vs = append(vs, Violation{"C10", "not-relaunched-after-probe-stop", "policy=" + p.Restart, fmt.Sprintf("%s was stopped after %d consecutive readiness failures (exit at t=%v, code %d) and, with restart policy %q, must be relaunched; it was not by t=%v", rep, threshold, L.ExitT, L.Code, p.Restart, t.EndT), L.ExitSeq})
					}
					if !owed && next != nil && !t.explicitStartCovering(rep, L.ExecSeq, next.ExecSeq) {
						vs = append(vs, Violation{"C10", "relaunched-after-probe-stop-without-policy", "policy=" + p.Restart, fmt.Sprintf("%s was relaunched after a probe-triggered stop although its restart policy is %q", rep, p.Restart), next.ExecSeq})
					}
				}
			}
		}
		// reported health at stable points
		for _, sn := range t.Snaps {
			if !sn.Stable {
				continue
			}
			st, okS := sn.States[rep]
			if okS && st.Status != "Running" && st.Health == "Ready" {
				// not Running means stopped or restarting - unless the command ended by itself
				// (the crash arm): the statement does not say what becomes of its readiness
				var last *Inst
				for _, in := range t.ByRep[rep] {
					if in.ExecSeq < sn.Seq {
						last = in
					}
				}
				if last != nil && last.ExitSeq >= 0 && last.ExitSeq < sn.Seq && len(last.Kills) == 0 && isTerminalStatus(st.Status) {
					continue
				}
				vs = append(vs, Violation{"C10", "ready-while-not-running", "status=" + st.Status, fmt.Sprintf("%s is reported Ready at t=%v while its status is %s: readiness is forgotten when a process is stopped or restarted", rep, sn.T, st.Status), sn.Seq})
				break
			}
			if !okS || st.Status != "Running" {
				continue
			}
			li := -1
			for i, L := range launches {
				if L.AliveAt(sn.Seq) {
					li = i
				}
			}
			if li < 0 {
				continue
			}
			// Robust, one-directional clauses (results of different probers may be handled in
			// either order at one instant): Ready needs a successful run since this launch
			// began, Not Ready a failed one, and with no finished run at all the health is
			// still unknown.
			nOK, nFail := 0, 0
			cur := runsOf(li)
			for _, pr := range cur {
				if pr.ExitSeq >= 0 && pr.ExitSeq < sn.Seq {
					if ok(pr) {
						nOK++
					} else {
						nFail++
					}
				}
			}
			bad := ""
			switch {
			case st.Health == "Ready" && nOK == 0:
				bad = "ready-without-successful-probe"
			case st.Health == "Not Ready" && nFail == 0:
				bad = "not-ready-without-failed-probe"
			case st.Health == "-" && nOK+nFail > 0:
				bad = "health-unknown-after-probe"
			}
			if bad == "" {
				var last *Inst
				for _, pr := range cur {
					if pr.ExitSeq >= 0 && pr.ExitSeq < sn.Seq && (last == nil || pr.ExitSeq > last.ExitSeq) {
						last = pr
					}
				}
				if last != nil && ok(last) && st.Health != "Ready" {
					bad = "not-ready-after-successful-probe"
				}
				if last != nil && !ok(last) && st.Health != "Not Ready" {
					bad = "ready-after-failed-probe"
				}
			}
			if bad != "" {
				vs = append(vs, Violation{"C10", bad, fmt.Sprintf("reported=%s ok=%d failed=%d", st.Health, nOK, nFail), fmt.Sprintf("%s is reported %q at t=%v; since its current launch began %d probe runs succeeded and %d failed", rep, st.Health, sn.T, nOK, nFail), sn.Seq})
				break
			}
		}
	}
	return vs
}

// checkC10Daemon: a daemon whose liveness probe fails failure_threshold times in a row is
// treated as exited (and its restart policy applied); not before
func checkC10Daemon(sc *Scenario, t *Truth, sd int) []Violation {
	var vs []Violation
	p := sc.Project.Proc("d")
	if p == nil || p.Liveness == nil {
		return nil
	}
	threshold := effInt(p.Liveness.FailureThreshold, 1, 3)
	launches := t.ByRep["d"]
	probes := t.ByToken["simprobe:d"]
	ok := func(pr *Inst) bool { return pr.ExitSeq >= 0 && pr.Code == 0 && pr.BySig == 0 }
	userStop := func(before int) bool {
		for _, c := range t.stopCalls("d") {
			if c.CallSeq < before {
				return true
			}
		}
		return sd >= 0 && sd < before
	}
	for li, L := range launches {
		if L.ExitSeq < 0 || L.Code != 0 {
			continue // the launcher did not finish (or failed): not a launched daemon
		}
		hi := 1 << 60
		if li+1 < len(launches) {
			hi = launches[li+1].ExecSeq
		}
		// probe runs that belong to this launch (a stopped prober may still start a run)
		old := map[int]bool{}
		for _, pr := range probes {
			if pr.ExecSeq < L.ExecSeq {
				old[pr.ExecTask] = true
			}
		}
		consec, fatalAt := 0, -1
		var fatalT time.Duration
		for _, pr := range probes {
			if pr.ExecSeq < L.ExecSeq || pr.ExecSeq > hi || old[pr.ExecTask] || pr.ExitSeq < 0 || pr.ExitSeq > hi {
				continue
			}
			if ok(pr) {
				consec = 0
			} else {
				consec++
			}
			if consec >= threshold && fatalAt < 0 {
				fatalAt, fatalT = pr.ExitSeq, pr.ExitT
			}
		}
		// when did the daemon stop being Launched?
		endSeq := -1
		var endT time.Duration
		launched := false
		for _, tr := range t.Trans["d"] {
			if tr.Seq < L.ExitSeq || tr.Seq > hi {
				continue
			}
			if tr.State == "Launched" {
				launched = true
			} else if launched && endSeq < 0 && (tr.State == "Completed" || tr.State == "Restarting" || tr.State == "Terminating") {
				endSeq, endT = tr.Seq, tr.T
			}
		}
		if !launched {
			continue
		}
		if endSeq >= 0 && !userStop(endSeq+1) && (fatalAt < 0 || endSeq < fatalAt) {
			vs = append(vs, Violation{"C10", "daemon-ended-before-liveness-threshold", fmt.Sprintf("threshold=%d", threshold), fmt.Sprintf("daemon d (launch %d) left the Launched state at seq %d without %d consecutive liveness failures and without a stop request", li, endSeq, threshold), endSeq})
			continue
		}
		if fatalAt >= 0 && !userStop(fatalAt) {
			if endSeq < 0 || userStop(endSeq+1) {
				// it did not end by itself: how long was it left alone after the threshold was
				// reached (and the daemon was up)?
				obsEnd := t.EndT
				if sd >= 0 {
					obsEnd = t.Events[sd].T
				}
				for _, c := range t.stopCalls("d") {
					if c.CallT < obsEnd {
						obsEnd = c.CallT
					}
				}
				from := fatalT
				if L.ExitT > from {
					from = L.ExitT
				}
				if obsEnd-from > 3*time.Second {
					vs = append(vs, Violation{"C10", "daemon-not-treated-as-exited", fmt.Sprintf("threshold=%d", threshold), fmt.Sprintf("the liveness probe of daemon d (launch %d) failed %d times in a row (the last at t=%v, daemon launched at t=%v) but the daemon is still treated as running at t=%v", li, threshold, fatalT, L.ExitT, obsEnd), fatalAt})
				}
				continue
			}
			owed := restartOwed(p, 0, li)
			var next *Inst
			if li+1 < len(launches) {
				next = launches[li+1]
			}
			if owed && next == nil && t.EndT-endT > backoffOf(p)+5*time.Second && !userStop(t.EndSeq) {
				vs = append(vs, Violation{"C10", "daemon-not-relaunched-after-liveness-failure", "policy=" + p.Restart, fmt.Sprintf("daemon d was treated as exited at t=%v after %d consecutive liveness failures and, with restart policy %q, must be relaunched; it was not by t=%v", endT, threshold, p.Restart, t.EndT), endSeq})
			}
			if !owed && next != nil && !t.explicitStartCovering("d", L.ExecSeq, next.ExecSeq) {
				vs = append(vs, Violation{"C10", "daemon-relaunched-without-policy", "policy=" + p.Restart, fmt.Sprintf("daemon d was relaunched after its liveness failure although its restart policy is %q", p.Restart), next.ExecSeq})
			}
		}
	}
	return vs
}

func genC10(r *R, sc *Scenario) {
	spec := &ProjectSpec{}
	sc.Project = spec
	sc.Scripts = map[string]*TokenScript{}
	n := r.Range(1, 2)
	vals := []int{-1, 0, 1, 2, 3, 10}
	opt := func() *int {
		if r.P(350) {
			return nil
		}
		return iptr(vals[r.Intn(len(vals))])
	}
	for i := 0; i < n; i++ {
		p := &ProcSpec{Name: fmt.Sprintf("h%d", i), Token: fmt.Sprintf("h%d", i)}
		p.Restart = Pick(r, "", "no", "always", "on_failure", "always", "exit_on_failure")
		if p.Restart == "always" || p.Restart == "on_failure" {
			p.Backoff = iptr(Pick(r, 1, 2))
			if r.P(500) {
				p.MaxRestarts = r.Range(1, 3)
			}
		}
		p.Readiness = &ProbeSpec{Token: p.Token, InitialDelay: opt(), Period: opt(), Timeout: opt(), SuccessThreshold: opt(), FailureThreshold: opt()}
		if p.Readiness.Period != nil && *p.Readiness.Period == 10 && r.P(700) {
			p.Readiness.Period = iptr(Pick(r, 1, 2))
		}
		if p.Readiness.Period == nil && r.P(600) {
			p.Readiness.Period = iptr(Pick(r, 1, 2, 3))
		}
		// subject life
		ts := &TokenScript{}
		for l := 0; l < 4; l++ {
			// the subject never exits by itself: its launches end only through probe-triggered
			// or requested stops, so every launch has a prober life of its own
			s := simos.Script{LifeMs: -1, Exit: Pick(r, 0, 1), TermLagMs: Pick(r, 0, 10, 500, 1500, 3000), ExitOnSig: Pick(r, 0, 0, 143)}
			ts.Launches = append(ts.Launches, s)
		}
		if r.P(200) && (p.Restart == "always" || p.Restart == "on_failure") {
			// the first launch crashes while its prober is still waiting out the initial delay; the
			// relaunch is probed on its own
			ts.Launches[0].LifeMs, ts.Launches[0].Exit = Pick(r, 300, 1200, 2500), 1
			p.Readiness.InitialDelay = iptr(Pick(r, 2, 3))
			if p.MaxRestarts == 0 {
				p.MaxRestarts = 3
			}
		}
		if r.P(150) {
			// a stop that lasts: SIGTERM is ignored and the time-out has to kill
			for l := range ts.Launches {
				ts.Launches[l].Ignore = []int{15}
			}
			p.StopTimeout = iptr(Pick(r, 2, 3))
		}
		sc.Scripts[p.Token] = ts
		// probe outcome sequence
		ps := &TokenScript{}
		m := r.Range(3, 14)
		mode := r.Intn(4) // 0 mostly ok, 1 flapping, 2 fail run, 3 random
		for k := 0; k < m; k++ {
			var s simos.Script
			okp := 500
			switch mode {
			case 0:
				okp = 850
			case 2:
				okp = 150
			}
			switch {
			case r.P(okp):
				s = simos.Script{LifeMs: Pick(r, 5, 50, 400), Exit: 0}
			case r.P(200):
				s = simos.Script{LifeMs: -1} // hangs until the time-out
			default:
				s = simos.Script{LifeMs: Pick(r, 5, 50, 400), Exit: Pick(r, 1, 2)}
			}
			ps.Launches = append(ps.Launches, s)
		}
		sc.Scripts["simprobe:"+p.Token] = ps
		spec.Procs = append(spec.Procs, p)
	}
	sc.Strategy = genStrategy(r)
	sc.Strategy.StallPermille = 0
	sc.IterMode = Pick(r, 0, 1, 2)
	sc.RunForMs = Pick(r, 30000, 60000, 120000)
	sc.QuietMs = 1000
	sc.Arm = "probes"
	if r.P(120) {
		// the subject becomes ready, ends by itself and is started again on request: the new
		// launch is not ready before a probe of its own has succeeded
		p := spec.Procs[0]
		p.Restart, p.MaxRestarts, p.StopTimeout = "no", 0, nil
		p.Readiness.InitialDelay, p.Readiness.Period, p.Readiness.SuccessThreshold = iptr(Pick(r, 1, 2, 3)), iptr(1), nil
		ts := sc.Scripts[p.Token]
		ts.Launches[0] = simos.Script{LifeMs: Pick(r, 4500, 6000), Exit: Pick(r, 0, 1)}
		ts.Launches[1] = simos.Script{LifeMs: -1, TermLagMs: 10}
		ps := sc.Scripts["simprobe:"+p.Token]
		for k := 0; k < 3 && k < len(ps.Launches); k++ {
			ps.Launches[k] = simos.Script{LifeMs: Pick(r, 5, 50), Exit: 0}
		}
		sc.Clients = append(sc.Clients, Client{Name: "c", Ops: []Op{{AtMs: Pick(r, 7000, 8500, 10000), Op: "start", Arg: p.Name}}})
		sc.Arm = "startagain"
	} else if r.P(350) {
		at := whenMs(r, 20000)
		if r.P(400) {
			// at the very instant at which a probe run may complete
			at = 1000*r.Range(1, 20) + Pick(r, 5, 50, 400)
		}
		sc.Clients = append(sc.Clients, Client{Name: "c", Ops: []Op{{AtMs: at, Op: Pick(r, "stop", "restart"), Arg: spec.Procs[0].Name}}})
	}
	// a daemon with a liveness probe
	if r.P(400) {
		d := &ProcSpec{Name: "d", Token: "d", IsDaemon: true, StopCmd: "d"}
		d.Restart = Pick(r, "", "no", "always", "always", "on_failure")
		if d.Restart == "always" || d.Restart == "on_failure" {
			d.Backoff = iptr(Pick(r, 1, 2))
			if r.P(500) {
				d.MaxRestarts = r.Range(1, 3)
			}
		}
		d.Liveness = &ProbeSpec{Token: "d", InitialDelay: opt(), Period: opt(), Timeout: opt(), SuccessThreshold: opt(), FailureThreshold: opt()}
		if d.Liveness.Period == nil || *d.Liveness.Period > 3 || *d.Liveness.Period < 1 {
			d.Liveness.Period = iptr(Pick(r, 1, 2, 3))
		}
		if d.Liveness.InitialDelay != nil && *d.Liveness.InitialDelay == 10 {
			d.Liveness.InitialDelay = iptr(2)
		}
		// the launcher forks the daemon and exits; sometimes it takes longer than the probe
		// needs to reach its threshold
		ts := &TokenScript{}
		for l := 0; l < 5; l++ {
			ts.Launches = append(ts.Launches, simos.Script{LifeMs: Pick(r, 50, 300, 1000, 2500, 5000), Exit: 0})
		}
		sc.Scripts["d"] = ts
		sc.Scripts["simstop:d"] = &TokenScript{Launches: []simos.Script{{LifeMs: Pick(r, 10, 200), Exit: 0}}}
		ps := &TokenScript{}
		m := r.Range(4, 16)
		okp := Pick(r, 150, 500, 850)
		for k := 0; k < m; k++ {
			switch {
			case r.P(okp):
				ps.Launches = append(ps.Launches, simos.Script{LifeMs: Pick(r, 5, 50, 400), Exit: 0})
			case r.P(150):
				ps.Launches = append(ps.Launches, simos.Script{LifeMs: -1})
			default:
				ps.Launches = append(ps.Launches, simos.Script{LifeMs: Pick(r, 5, 50, 400), Exit: Pick(r, 1, 2)})
			}
		}
		sc.Scripts["simprobe:d"] = ps
		spec.Procs = append(spec.Procs, d)
	}
	// a process that is never started carries an http probe: only its effective parameters matter
	if r.P(500) {
		hp := &ProcSpec{Name: "hp", Token: "hp", Disabled: true}
		hs := &HTTPSpec{Host: Pick(r, "", "", "localhost", "  "), Scheme: Pick(r, "", "https"), Path: Pick(r, "", "/healthz")}
		ports := []int{-5, 0, 1, 80, 8080, 65535, 65536, 70000, 1 << 20}
		switch r.Intn(4) {
		case 0:
			hs.Port = fmt.Sprint(ports[r.Intn(len(ports))])
		case 1:
			hs.NumPort = iptr(ports[r.Intn(len(ports))])
		case 2:
			hs.Port = Pick(r, "http", "80x", "", "8080")
			hs.NumPort = iptr(ports[r.Intn(len(ports))])
		}
		hp.Readiness = &ProbeSpec{Token: "hp", HTTP: hs, InitialDelay: opt(), Period: opt(), Timeout: opt(), SuccessThreshold: opt(), FailureThreshold: opt()}
		if r.P(300) {
			hp.Liveness = &ProbeSpec{Token: "hp", InitialDelay: opt(), Period: opt(), Timeout: opt(), SuccessThreshold: opt(), FailureThreshold: opt()}
		}
		sc.Scripts["hp"] = &TokenScript{Launches: []simos.Script{{LifeMs: 100}}}
		spec.Procs = append(spec.Procs, hp)
	}
	sc.Clients = append(sc.Clients, Client{Name: "params", Ops: []Op{{AtMs: 300, Op: "audit"}}})
}
