package harness

import (
	"fmt"
	"time"

	"verifrt/simos"
)

// ---- C10: health probes ----

func effInt(v *int, min, def int) int {
	if v == nil || *v < min {
		return def
	}
	return *v
}

func checkC10(sc *Scenario, res *RunResult, t *Truth) []Violation {
	var vs []Violation
	sd := t.firstShutdownSeq(sc)
	for _, p := range sc.Project.Procs {
		if p.Readiness == nil || p.IsDaemon || p.Replicas > 1 {
			continue
		}
		rep := p.Name
		launches := t.ByRep[rep]
		probes := t.ByToken["simprobe:"+p.Readiness.Token]
		delay := effInt(p.Readiness.InitialDelay, 0, 0)
		_ = effInt(p.Readiness.Period, 1, 10)
		timeout := effInt(p.Readiness.Timeout, 1, 1)
		threshold := effInt(p.Readiness.FailureThreshold, 1, 3)
		// probe runs per launch
		runsOf := func(li int) []*Inst {
			var r []*Inst
			lo := launches[li].ExecSeq
			hi := 1 << 60
			if li+1 < len(launches) {
				hi = launches[li+1].ExecSeq
			}
			// a stopped prober may still start a run or two (its results are dropped): runs of
			// a prober task that was already probing before this launch are not this launch's
			old := map[int]bool{}
			for _, pr := range probes {
				if pr.ExecSeq < lo {
					old[pr.ExecTask] = true
				}
			}
			for _, pr := range probes {
				if pr.ExecSeq > lo && pr.ExecSeq < hi && !old[pr.ExecTask] {
					r = append(r, pr)
				}
			}
			return r
		}
		ok := func(pr *Inst) bool { return pr.ExitSeq >= 0 && pr.Code == 0 && pr.BySig == 0 }
		for li, L := range launches {
			runs := runsOf(li)
			// effective parameters, read off the fake clock
			for i, pr := range runs {
				if i == 0 {
					if d := pr.ExecT - L.ExecT; d < time.Duration(delay)*time.Second {
						vs = append(vs, Violation{"C10", "probe-before-initial-delay", "", fmt.Sprintf("%s: first probe run %v after the launch; initial delay is %ds", rep, d, delay), pr.ExecSeq})
					}
				} else {
					// consecutive runs of the same prober (ticker goroutine) are at least 1s apart
					for j := i - 1; j >= 0; j-- {
						if runs[j].ExecTask == pr.ExecTask {
							if d := pr.ExecT - runs[j].ExecT; d < time.Second {
								vs = append(vs, Violation{"C10", "probe-period-below-1s", "", fmt.Sprintf("%s: probe runs of one prober started %v apart", rep, d), pr.ExecSeq})
							}
							break
						}
					}
				}
				if pr.BySig == 9 && pr.ExitSeq >= 0 {
					if d := pr.ExitT - pr.ExecT; d < time.Duration(timeout)*time.Second {
						vs = append(vs, Violation{"C10", "probe-killed-before-timeout", "", fmt.Sprintf("%s: a hanging probe command was killed after %v; the time-out is %ds (minimum 1s)", rep, d, timeout), pr.ExitSeq})
					}
				}
			}
			// threshold: consecutive failures => stop; never earlier. The prober keeps running
			// (and counting) across automatic restarts, so consecutive failures are counted
			// over all probe runs, not per launch.
			fatalAt := -1
			{
				consec := 0
				for _, pr := range runs {
					if pr.ExitSeq < 0 {
						continue
					}
					if L.ExitSeq >= 0 && pr.ExitSeq > L.ExitSeq {
						break
					}
					if ok(pr) {
						consec = 0
					} else {
						consec++
					}
					if consec >= threshold && fatalAt < 0 {
						fatalAt = pr.ExitSeq
					}
				}
			}
			userStop := func(before int) bool {
				for _, c := range t.stopCalls(rep) {
					if c.CallSeq < before {
						return true
					}
				}
				return sd >= 0 && sd < before
			}
			var firstKill *KillEv
			for i := range L.Kills {
				if firstKill == nil || L.Kills[i].Seq < firstKill.Seq {
					firstKill = &L.Kills[i]
				}
			}
			failedBefore := func(seq int) int {
				n := 0
				for _, pr := range runs {
					if pr.ExitSeq < 0 || pr.ExitSeq > seq {
						continue
					}
					if ok(pr) {
						n = 0
					} else {
						n++
					}
				}
				return n
			}
			if firstKill != nil && !userStop(firstKill.Seq+1) && (failedBefore(firstKill.Seq) == 0 || fatalAt < 0 || firstKill.Seq < fatalAt) {
				vs = append(vs, Violation{"C10", "stopped-before-failure-threshold", fmt.Sprintf("threshold=%d", threshold), fmt.Sprintf("%s was signalled at seq %d after fewer than %d consecutive probe failures of this launch and without a stop request", rep, firstKill.Seq, threshold), firstKill.Seq})
			}
			if fatalAt >= 0 && (L.ExitSeq < 0 || L.ExitSeq > fatalAt) && !userStop(fatalAt) {
				if firstKill == nil {
					if t.EndT-t.Events[fatalAt].T > 3*time.Second {
						vs = append(vs, Violation{"C10", "not-stopped-after-failure-threshold", fmt.Sprintf("threshold=%d", threshold), fmt.Sprintf("%s: %d consecutive probe failures (the last at seq %d) but the process was never signalled", rep, threshold, fatalAt), fatalAt})
					}
				} else if L.ExitSeq >= 0 && !userStop(L.ExitSeq+1) {
					// stopped because of the probe: relaunched iff the policy says so
					owed := restartOwed(p, L.Code, li)
					var next *Inst
					if li+1 < len(launches) {
						next = launches[li+1]
					}
					if owed && next == nil && t.EndT-L.ExitT > backoffOf(p)+5*time.Second && !userStop(t.EndSeq) {
						vs = append(vs, Violation{"C10", "not-relaunched-after-probe-stop", "policy=" + p.Restart, fmt.Sprintf("%s was stopped after %d consecutive readiness failures (exit at t=%v, code %d) and, with restart policy %q, must be relaunched; it was not by t=%v", rep, threshold, L.ExitT, L.Code, p.Restart, t.EndT), L.ExitSeq})
					}
					if !owed && next != nil && !t.explicitStartCovering(rep, L.ExecSeq, next.ExecSeq) {
						vs = append(vs, Violation{"C10", "relaunched-after-probe-stop-without-policy", "policy=" + p.Restart, fmt.Sprintf("%s was relaunched after a probe-triggered stop although its restart policy is %q", rep, p.Restart), next.ExecSeq})
					}
				}
			}
		}
		// reported health at stable points
		for _, sn := range t.Snaps {
			if !sn.Stable {
				continue
			}
			st, okS := sn.States[rep]
			if !okS || st.Status != "Running" {
				continue
			}
			li := -1
			for i, L := range launches {
				if L.AliveAt(sn.Seq) {
					li = i
				}
			}
			if li < 0 {
				continue
			}
			// Robust, one-directional clauses (results of different probers may be handled in
			// either order at one instant): Ready needs a successful run since this launch
			// began, Not Ready a failed one, and with no finished run at all the health is
			// still unknown.
			nOK, nFail := 0, 0
			cur := runsOf(li)
			for _, pr := range cur {
				if pr.ExitSeq >= 0 && pr.ExitSeq < sn.Seq {
					if ok(pr) {
						nOK++
					} else {
						nFail++
					}
				}
			}
			bad := ""
			switch {
			case st.Health == "Ready" && nOK == 0:
				bad = "ready-without-successful-probe"
			case st.Health == "Not Ready" && nFail == 0:
				bad = "not-ready-without-failed-probe"
			case st.Health == "-" && nOK+nFail > 0:
				bad = "health-unknown-after-probe"
			}
			if bad == "" {
				var last *Inst
				for _, pr := range cur {
					if pr.ExitSeq >= 0 && pr.ExitSeq < sn.Seq && (last == nil || pr.ExitSeq > last.ExitSeq) {
						last = pr
					}
				}
				if last != nil && ok(last) && st.Health != "Ready" {
					bad = "not-ready-after-successful-probe"
				}
				if last != nil && !ok(last) && st.Health != "Not Ready" {
					bad = "ready-after-failed-probe"
				}
			}
			if bad != "" {
				vs = append(vs, Violation{"C10", bad, fmt.Sprintf("reported=%s ok=%d failed=%d", st.Health, nOK, nFail), fmt.Sprintf("%s is reported %q at t=%v; since its current launch began %d probe runs succeeded and %d failed", rep, st.Health, sn.T, nOK, nFail), sn.Seq})
				break
			}
		}
	}
	return vs
}

func genC10(r *R, sc *Scenario) {
	spec := &ProjectSpec{}
	sc.Project = spec
	sc.Scripts = map[string]*TokenScript{}
	n := r.Range(1, 2)
	vals := []int{-1, 0, 1, 2, 3, 10}
	opt := func() *int {
		if r.P(350) {
			return nil
		}
		return iptr(vals[r.Intn(len(vals))])
	}
	for i := 0; i < n; i++ {
		p := &ProcSpec{Name: fmt.Sprintf("h%d", i), Token: fmt.Sprintf("h%d", i)}
		p.Restart = Pick(r, "", "no", "always", "on_failure", "always", "exit_on_failure")
		if p.Restart == "always" || p.Restart == "on_failure" {
			p.Backoff = iptr(Pick(r, 1, 2))
			if r.P(500) {
				p.MaxRestarts = r.Range(1, 3)
			}
		}
		p.Readiness = &ProbeSpec{Token: p.Token, InitialDelay: opt(), Period: opt(), Timeout: opt(), SuccessThreshold: opt(), FailureThreshold: opt()}
		if p.Readiness.Period != nil && *p.Readiness.Period == 10 && r.P(700) {
			p.Readiness.Period = iptr(Pick(r, 1, 2))
		}
		if p.Readiness.Period == nil && r.P(600) {
			p.Readiness.Period = iptr(Pick(r, 1, 2, 3))
		}
		// subject life
		ts := &TokenScript{}
		for l := 0; l < 4; l++ {
			// the subject never exits by itself: its launches end only through probe-triggered
			// or requested stops, so every launch has a prober life of its own
			s := simos.Script{LifeMs: -1, Exit: Pick(r, 0, 1), TermLagMs: Pick(r, 0, 10, 500), ExitOnSig: Pick(r, 0, 0, 143)}
			ts.Launches = append(ts.Launches, s)
		}
		sc.Scripts[p.Token] = ts
		// probe outcome sequence
		ps := &TokenScript{}
		m := r.Range(3, 14)
		mode := r.Intn(4) // 0 mostly ok, 1 flapping, 2 fail run, 3 random
		for k := 0; k < m; k++ {
			var s simos.Script
			okp := 500
			switch mode {
			case 0:
				okp = 850
			case 2:
				okp = 150
			}
			switch {
			case r.P(okp):
				s = simos.Script{LifeMs: Pick(r, 5, 50, 400), Exit: 0}
			case r.P(200):
				s = simos.Script{LifeMs: -1} // hangs until the time-out
			default:
				s = simos.Script{LifeMs: Pick(r, 5, 50, 400), Exit: Pick(r, 1, 2)}
			}
			ps.Launches = append(ps.Launches, s)
		}
		sc.Scripts["simprobe:"+p.Token] = ps
		spec.Procs = append(spec.Procs, p)
	}
	sc.Strategy = genStrategy(r)
	sc.Strategy.StallPermille = 0
	sc.IterMode = Pick(r, 0, 1, 2)
	sc.RunForMs = Pick(r, 30000, 60000, 120000)
	sc.QuietMs = 1000
	sc.Arm = "probes"
	if r.P(250) {
		sc.Clients = append(sc.Clients, Client{Name: "c", Ops: []Op{{AtMs: whenMs(r, 20000), Op: Pick(r, "stop", "restart"), Arg: spec.Procs[0].Name}}})
	}
}
