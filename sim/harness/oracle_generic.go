package harness

import (
	"fmt"
	"strings"
)

// checkGeneric: oracles that are cheap enough to stay armed in every run of every
// property (reported under their own property id).
func checkGeneric(sc *Scenario, res *RunResult, t *Truth) []Violation {
	var vs []Violation
	// C20: a panic in any task of the system under test is a supervisor crash
	for _, p := range res.Out.Panics {
		fn := topSutFrame(p.Stack)
		vs = append(vs, Violation{"C20", "panic", fn, fmt.Sprintf("panic in %s: %s (at %s)", p.Task, p.Value, fn), 0})
	}
	// C08: at most one live command per replica
	scaled := map[string]bool{}
	for _, c := range t.Calls {
		if c.Op == "scale" || c.Op == "update" {
			scaled[c.Arg] = true
			if c.Op == "update" {
				scaled["*"] = true
			}
		}
	}
	for _, rep := range sortedNames(t.ByRep) {
		insts := t.ByRep[rep]
		if scaled["*"] || scaled[rep] {
			continue // replica identity under scaling/updates is C13's / C14's business
		}
		for i, a := range insts {
			for _, b := range insts[i+1:] {
				if b.ExecSeq < a.ExecSeq {
					continue
				}
				if a.ExitSeq < 0 || a.ExitSeq > b.ExecSeq {
					vs = append(vs, Violation{"C08", "two-live-instances", overlapCause(t, rep, b),
						fmt.Sprintf("%s: command pid %d launched at seq %d (t=%v) while pid %d (launched seq %d) is still alive", rep, b.Pid, b.ExecSeq, b.ExecT, a.Pid, a.ExecSeq), b.ExecSeq})
				}
			}
		}
	}
	return vs
}

func overlapCause(t *Truth, rep string, b *Inst) string {
	// which request launched the second instance?
	for i := len(t.Calls) - 1; i >= 0; i-- {
		c := t.Calls[i]
		if c.CallSeq < b.ExecSeq && isStartOp(c.Op) && (c.Arg == rep || c.Op == "update" || c.Op == "scale") {
			return c.Op
		}
	}
	return "auto"
}

func topSutFrame(stack string) string {
	for _, ln := range strings.Split(stack, "\n") {
		if strings.HasPrefix(ln, "github.com/f1bonacc1/process-compose/") {
			f := strings.TrimPrefix(ln, "github.com/f1bonacc1/process-compose/")
			if i := strings.LastIndexByte(f, '('); i > 0 {
				f = f[:i]
			}
			return f
		}
	}
	return "?"
}
