package harness

import (
	"fmt"

	"verifrt/simos"
)

// PropDef ties a property to its workload generator and its oracles.
type PropDef struct {
	ID    string
	Gen   func(seed uint64, idx int, tier string) *Scenario
	Check func(sc *Scenario, res *RunResult, t *Truth) []Violation
	// NonTrivial decides whether a run counts towards distinct_nontrivial.
	NonTrivial func(sc *Scenario, res *RunResult, t *Truth) bool
	Rule       string
	// Sweep: the scenario has a client named "sweep" whose first operation is injected
	// at every scheduler step of a baseline run.
	Sweep bool
	// JudgeCutOff: the property's clauses hold of every prefix of a history, so a run that was
	// cut off by the step budget (a change that makes goroutines pile up does that) is judged too
	JudgeCutOff bool
	// Valid (optional): the minimiser only keeps simplified scenarios for which it holds
	// (invariants the generator guarantees and the oracle relies on)
	Valid func(sc *Scenario) bool
	// JudgeLoadErr: a rejected configuration is part of what the property is about
	JudgeLoadErr bool
}

var Props = map[string]*PropDef{}

func register(p *PropDef) { Props[p.ID] = p }

func defaultNonTrivial(sc *Scenario, res *RunResult, t *Truth) bool {
	return res.Out != nil && (res.Out.Preemptions > 0 || res.World.Stats.Kills > 0 || res.World.Stats.StartFail > 0)
}

// termination is owed for every process: it dies on the stop signal (after a lag) or a
// shutdown time-out is configured.
func lifecycleKnobs() *CoreKnobs {
	return &CoreKnobs{MinProcs: 1, MaxProcs: 6, EdgeP: 350, RestartP: 450, ExitOnP: 0, StartFailP: 40, FailExitP: 350,
		NeverReadyP: 250, SlowDeathP: 300, StopTimeoutP: 300, IgnoreTermP: 120, DisabledP: 50}
}

func baseScenario(prop string, seed uint64) (*Scenario, *R) {
	r := NewR(seed, 1)
	sc := &Scenario{Prop: prop, Seed: seed, Observe: true, RunForMs: 20000, EndShutdown: true, BoundMs: 3600 * 1000, QuietMs: 45000}
	return sc, r
}

// whenMs draws an instant that often coincides with the SUT's own whole-second timers.
func whenMs(r *R, max int) int {
	switch r.Intn(4) {
	case 0:
		return 1000 * r.Intn(max/1000+1)
	case 1:
		return 500 * r.Intn(max/500+1)
	case 2:
		return 0
	}
	return r.Intn(max + 1)
}

func init() {
	register(&PropDef{ID: "C03", Rule: "seeded projects (1-6 processes, random DAG/conditions/policies/faults); shutdown requested by API at a seeded instant, by a second concurrent API call, or by an exit_on_* trigger; plus injection-point sweeps of ShutDownProject over every scheduler step of a baseline run. non-trivial = at least one preemption at a shared object or one signal/fault fired; distinct = distinct trace hash",
		Gen: func(seed uint64, idx int, tier string) *Scenario {
			sc, r := baseScenario("C03", seed)
			k := lifecycleKnobs()
			k.StopCmdP = 150
			k.DisabledP = 120
			arm := r.Intn(10)
			if arm < 2 {
				k.ExitOnP = 350
				sc.Arm = "trigger"
			} else if arm < 5 {
				sc.Arm = "sweep"
			} else {
				sc.Arm = "api"
			}
			GenCore(r, k, sc)
			sc.OrderedShutdown = r.P(300)
			if r.P(150) {
				addSlowDaemon(r, sc, "dm")
			}
			if sc.Arm == "api" && r.P(150) {
				// the shutdown meets a scale request that is renaming the running replicas
				n0 := Pick(r, 1, 1, 9)
				sc.Project.Procs = append(sc.Project.Procs, &ProcSpec{Name: "w", Token: "w.{{.PC_REPLICA_NUM}}", Replicas: n0})
				life := simos.Script{LifeMs: -1, TermLagMs: Pick(r, 0, 100)}
				sc.Scripts["w.*"] = &TokenScript{Launches: []simos.Script{life, life}}
				at := Pick(r, 1000, 2000, 3000)
				sc.Clients = append(sc.Clients, Client{Name: "scl", Ops: []Op{{AtMs: at, Op: "scale", Arg: ReplicaNames("w", n0)[0], N: n0 + 1}}},
					Client{Name: "sd1", Ops: []Op{{AtMs: at, Op: "shutdown"}}})
				sc.Strategy.StallPermille = 0
				sc.Arm = "scalerace"
				return sc
			}
			switch sc.Arm {
			case "api":
				at := whenMs(r, 12000)
				if sc.Project.Proc("dm") != nil && r.P(500) {
					at = Pick(r, 100, 500, 1000, 1400, 2900) // while the daemon's launcher is still running
				}
				sc.Clients = append(sc.Clients, Client{Name: "sd1", Ops: []Op{{AtMs: at, Op: "shutdown"}}})
				if r.P(300) {
					sc.Clients = append(sc.Clients, Client{Name: "sd2", Ops: []Op{{AtMs: at + Pick(r, 0, 0, 1, 500, 1000), Op: "shutdown"}}})
				}
				if r.P(250) && len(sc.Project.Procs) > 0 {
					p := sc.Project.Procs[r.Intn(len(sc.Project.Procs))]
					sc.Clients = append(sc.Clients, Client{Name: "st", Ops: []Op{{AtMs: whenMs(r, at+1000), Op: Pick(r, "stop", "restart", "start"), Arg: p.Name}}})
				}
				// processes that only start on request (disabled) are started by hand before the shutdown
				for _, p := range sc.Project.Procs {
					if p.Disabled && r.P(700) {
						sc.Clients = append(sc.Clients, Client{Name: "man-" + p.Name, Ops: []Op{{AtMs: r.Intn(at + 1), Op: "start", Arg: p.Name}}})
					}
				}
			case "sweep":
				sc.Clients = append(sc.Clients, Client{Name: "sweep", Ops: []Op{{Op: "shutdown"}}})
				sc.RunForMs = 15000
			}
			if sc.Arm == "api" && r.P(700) {
				// state queries in flight at the instants at which commands end (the TUI and REST
				// clients poll all the time): what they leave behind is still true after the shutdown
				var poll []Op
				for _, p := range sc.Project.Procs {
					if ts := sc.Scripts[p.Token]; ts != nil {
						for _, l := range ts.Launches {
							if l.LifeMs >= 0 && r.P(700) {
								poll = append(poll, Op{AtMs: l.LifeMs, Op: Pick(r, "states", "state", "projstate"), Arg: p.Name})
							}
						}
					}
				}
				if len(poll) > 0 {
					sortOps(poll)
					sc.Clients = append(sc.Clients, Client{Name: "poll", Ops: poll})
					// (several observers at once, as a TUI beside a REST client)
					for k := 0; k < r.Range(1, 2); k++ {
						sc.Clients = append(sc.Clients, Client{Name: fmt.Sprintf("poll%d", k), Ops: append([]Op(nil), poll...)})
					}
				}
			}
			return sc
		},
		Sweep: true,
		Check: func(sc *Scenario, res *RunResult, t *Truth) []Violation { return checkC03(sc, t) },
	})

	register(&PropDef{ID: "C04", Rule: "seeded finite projects (every process ends by itself, restarts bounded) with start failures, skips and exit_on_* carriers; Run() must return by itself with the right code; non-trivial = an exit_on_* trigger, a skip, a start failure or a restart occurred; distinct = distinct trace hash",
		Gen: func(seed uint64, idx int, tier string) *Scenario {
			sc, r := baseScenario("C04", seed)
			k := lifecycleKnobs()
			k.Finite = true
			k.MaxLifeMs = 6000
			k.NeverReadyP = 300
			k.IgnoreTermP = 60
			k.ExitOnP = Pick(r, 0, 250, 500)
			GenCore(r, k, sc)
			sc.Arm = "natural"
			sc.RunForMs = 180000
			if r.P(200) {
				// a trigger whose shutdown terminates the dependency of an exit_on_skipped process:
				// that skip is a consequence of the shutdown, not a trigger of its own
				sc.Arm = "skipchain"
				trig := &ProcSpec{Name: "tg", Token: "tg"}
				code := Pick(r, 3, 7, 0)
				if code == 0 {
					trig.ExitOnEnd = true
				} else {
					trig.Restart = "exit_on_failure"
				}
				sc.Scripts["tg"] = &TokenScript{Launches: []simos.Script{{LifeMs: Pick(r, 500, 1500, 3000), Exit: code}}}
				dep := &ProcSpec{Name: "dp", Token: "dp"}
				if r.P(500) {
					dep.StopTimeout = iptr(Pick(r, 1, 2))
				}
				sc.Scripts["dp"] = &TokenScript{Launches: []simos.Script{{LifeMs: 60000, TermLagMs: Pick(r, 0, 10, 500), ExitOnSig: Pick(r, 0, 143)}}}
				sk := &ProcSpec{Name: "sk", Token: "sk", ExitOnSkipped: true, DependsOn: map[string]string{"dp": Pick(r, "process_completed_successfully", "process_log_ready")}}
				if sk.DependsOn["dp"] == "process_log_ready" {
					dep.ReadyLine = "never printed"
				}
				sc.Scripts["sk"] = &TokenScript{Launches: []simos.Script{{LifeMs: 100}}}
				for i := 0; i < r.Range(0, 3); i++ {
					nm := fmt.Sprintf("fl%d", i)
					sc.Project.Procs = append(sc.Project.Procs, &ProcSpec{Name: nm, Token: nm, StopTimeout: iptr(Pick(r, 1, 2))})
					sc.Scripts[nm] = &TokenScript{Launches: []simos.Script{{LifeMs: 60000, TermLagMs: Pick(r, 0, 100, 1500), Ignore: []int{15}}}}
				}
				sc.Project.Procs = append(sc.Project.Procs, trig, dep, sk)
			}
			if sc.Arm == "natural" && r.P(200) {
				// a daemon is still being launched when a trigger starts the project shutdown
				sc.Arm = "daemontrigger"
				addSlowDaemon(r, sc, "dm")
				trig := &ProcSpec{Name: "tg", Token: "tg"}
				code := Pick(r, 3, 7, 0)
				if code == 0 {
					trig.ExitOnEnd = true
				} else {
					trig.Restart = "exit_on_failure"
				}
				sc.Scripts["tg"] = &TokenScript{Launches: []simos.Script{{LifeMs: Pick(r, 100, 500, 1000, 2500), Exit: code}}}
				sc.Project.Procs = append(sc.Project.Procs, trig)
			}
			for _, p := range sc.Project.Procs {
				if p.ExitOnEnd || p.ExitOnSkipped || p.Restart == "exit_on_failure" {
					// which trigger comes first is judged from the order of events: a stalled
					// supervisor goroutine (fault F13) would make that order meaningless
					sc.Strategy.StallPermille = 0
				}
			}
			return sc
		},
		Check: func(sc *Scenario, res *RunResult, t *Truth) []Violation { return checkC04(sc, t) },
		NonTrivial: func(sc *Scenario, res *RunResult, t *Truth) bool {
			for _, trs := range t.Trans {
				for _, tr := range trs {
					if tr.State == "Skipped" || tr.State == "Error" || tr.State == "Restarting" || tr.State == "Terminating" {
						return true
					}
				}
			}
			return false
		},
	})

	register(&PropDef{ID: "C02", Rule: "seeded projects whose processes carry every availability policy x max_restarts x backoff with seeded exit-code sequences; stop/shutdown requests injected at seeded instants (whole seconds included) and by injection-point sweep of StopProcess; non-trivial = at least one restart decision was taken (an exit of a process with a restart policy); distinct = distinct trace hash",
		Gen: func(seed uint64, idx int, tier string) *Scenario {
			sc, r := baseScenario("C02", seed)
			k := lifecycleKnobs()
			k.MaxProcs = 3
			k.RestartP = 900
			k.EdgeP = 150
			k.MaxLifeMs = 4000
			k.StartFailP = 0
			k.Conds = []string{"process_completed", "process_started", "process_completed_successfully"}
			GenCore(r, k, sc)
			sc.RunForMs = 40000
			subject := sc.Project.Procs[r.Intn(len(sc.Project.Procs))]
			if r.P(150) {
				// some launches end in a crash (death by a signal nobody sent: exit code -1)
				for _, p := range sc.Project.Procs {
					if p.Restart == "exit_on_failure" || p.ExitOnEnd {
						continue
					}
					if ts := sc.Scripts[p.Token]; ts != nil {
						for l := range ts.Launches {
							if ts.Launches[l].LifeMs >= 0 && r.P(500) {
								ts.Launches[l].CrashSig = Pick(r, 11, 6, 9)
							}
						}
					}
				}
			}
			if r.P(200) {
				// some commands close their own stdout and stderr and live on for a while
				// (exec >/dev/null 2>&1): the back-off still counts from their exit
				for _, p := range sc.Project.Procs {
					if ts := sc.Scripts[p.Token]; ts != nil {
						for l := range ts.Launches {
							if L := &ts.Launches[l]; L.LifeMs >= 1000 && len(L.Children) == 0 && r.P(600) {
								at := L.LifeMs - Pick(r, 400, 700, 900)
								var out []simos.OutChunk
								for _, c := range L.Out {
									if c.AtMs < at {
										out = append(out, c)
									}
								}
								L.Out = append(out, simos.OutChunk{AtMs: at, Stream: 0})
							}
						}
					}
				}
			}
			switch r.Intn(5) {
			case 4:
				// a shutdown that is held up by a slow process while the subject is in (or
				// about to enter) its back-off wait
				addHeldShutdown(r, sc, subject)
			case 0:
				sc.Arm = "nostop"
			case 1:
				sc.Arm = "stop"
				sc.Clients = append(sc.Clients, Client{Name: "stopper", Ops: []Op{{AtMs: whenMs(r, 15000), Op: "stop", Arg: subject.Name}}})
				if r.P(300) {
					sc.Clients = append(sc.Clients, Client{Name: "stopper2", Ops: []Op{{AtMs: whenMs(r, 15000), Op: "stop", Arg: subject.Name}}})
				}
			case 2:
				sc.Arm = "sweep"
				sc.Clients = append(sc.Clients, Client{Name: "sweep", Ops: []Op{{Op: "stop", Arg: subject.Name}}})
				sc.RunForMs = 25000
			case 3:
				sc.Arm = "shutdown"
				sc.Clients = append(sc.Clients, Client{Name: "sd", Ops: []Op{{AtMs: whenMs(r, 15000), Op: "shutdown"}}})
			}
			return sc
		},
		Sweep: true,
		Check: func(sc *Scenario, res *RunResult, t *Truth) []Violation { return checkC02(sc, t) },
		NonTrivial: func(sc *Scenario, res *RunResult, t *Truth) bool {
			for rep, insts := range t.ByRep {
				if p := sc.specOfReplica(rep); p != nil && p.Restart != "" && p.Restart != "no" {
					for _, in := range insts {
						if in.ExitSeq >= 0 {
							return true
						}
					}
				}
			}
			return false
		},
	})

	register(&PropDef{ID: "C01", Rule: "seeded DAGs of 2-7 processes mixing the five depends_on conditions; dependencies exit with seeded codes, print their ready line early/late/never/split, pass their probe after seeded failures, fail to start, are restarted; clients start/restart processes at seeded instants; every launch is checked at its instant against ground truth; non-trivial = at least one launch of a process with dependencies was checked; distinct = distinct trace hash",
		Gen: func(seed uint64, idx int, tier string) *Scenario {
			sc, r := baseScenario("C01", seed)
			k := lifecycleKnobs()
			k.MinProcs, k.MaxProcs = 2, 7
			k.EdgeP = 500
			k.RestartP = 300
			k.MaxLifeMs = 5000
			GenCore(r, k, sc)
			sc.RunForMs = 30000
			if r.P(250) {
				addRedoPair(r, sc)
				sc.Arm = "redo"
				return sc
			}
			if r.P(200) {
				addStopUnreadyPair(r, sc)
				sc.Arm = "stopunready"
				return sc
			}
			if r.P(100) {
				// a process is restarted (or stopped and started) while it is still waiting for
				// its own dependency; later a dependent of it is started by hand and has to wait
				// for the new instance
				cond := Pick(r, "process_completed", "process_completed_successfully")
				sc.Project.Procs = append(sc.Project.Procs,
					&ProcSpec{Name: "wx", Token: "wx"},
					&ProcSpec{Name: "wa", Token: "wa", DependsOn: map[string]string{"wx": "process_completed_successfully"}},
					&ProcSpec{Name: "wb", Token: "wb", Disabled: true, DependsOn: map[string]string{"wa": cond}})
				sc.Scripts["wx"] = &TokenScript{Launches: []simos.Script{{LifeMs: Pick(r, 2500, 3500), Exit: 0}}}
				sc.Scripts["wa"] = &TokenScript{Launches: []simos.Script{{LifeMs: Pick(r, 4000, 6000), Exit: 0}, {LifeMs: 4000, Exit: 0}}}
				sc.Scripts["wb"] = &TokenScript{Launches: []simos.Script{{LifeMs: 500, Exit: 0}}}
				ops := []Op{{AtMs: Pick(r, 500, 1000, 1500), Op: "restart", Arg: "wa"}}
				if r.P(400) {
					ops = []Op{{AtMs: 500, Op: "stop", Arg: "wa"}, {AtMs: Pick(r, 1000, 1500), Op: "start", Arg: "wa"}}
				}
				ops = append(ops, Op{AtMs: Pick(r, 4500, 5500), Op: "start", Arg: "wb"})
				sc.Clients = append(sc.Clients, Client{Name: "rp", Ops: ops})
				sc.Strategy.StallPermille = 0
				sc.Arm = "repend"
				return sc
			}
			if r.P(100) {
				// a dependency fails while its dependents wait, and at that very instant somebody
				// starts it again: the dependents act on the life that has just ended
				L := Pick(r, 1000, 2000, 2500)
				sc.Project.Procs = append(sc.Project.Procs, &ProcSpec{Name: "fx", Token: "fx"})
				sc.Scripts["fx"] = &TokenScript{Launches: []simos.Script{{LifeMs: L, Exit: Pick(r, 1, 2)}, {LifeMs: 3000, Exit: 0}, {LifeMs: 3000, Exit: 0}}}
				for i := 0; i < r.Range(2, 4); i++ {
					nm := fmt.Sprintf("fd%d", i)
					sc.Project.Procs = append(sc.Project.Procs, &ProcSpec{Name: nm, Token: nm, DependsOn: map[string]string{"fx": "process_completed_successfully"}})
					sc.Scripts[nm] = &TokenScript{Launches: []simos.Script{{LifeMs: 500}}}
				}
				for c := 0; c < r.Range(1, 3); c++ {
					sc.Clients = append(sc.Clients, Client{Name: fmt.Sprintf("again%d", c), Ops: []Op{{AtMs: L, Op: "start", Arg: "fx"}, {AtMs: L, Op: "start", Arg: "fx"}}})
				}
				sc.Strategy.StallPermille = 0
				sc.Arm = "startatexit"
				return sc
			}
			if r.P(100) {
				// several dependencies, one of them a process that is not scheduled to run
				// (disabled): it is passed over, the others are still waited for
				sc.Project.Procs = append(sc.Project.Procs,
					&ProcSpec{Name: "dz", Token: "dz", Disabled: true},
					&ProcSpec{Name: "ds", Token: "ds"},
					&ProcSpec{Name: "dt", Token: "dt"},
					&ProcSpec{Name: "dm", Token: "dm", DependsOn: map[string]string{"dz": Pick(r, "process_started", "process_completed"), "ds": "process_completed_successfully", "dt": "process_completed"}})
				sc.Scripts["dz"] = &TokenScript{Launches: []simos.Script{{LifeMs: 100}}}
				sc.Scripts["ds"] = &TokenScript{Launches: []simos.Script{{LifeMs: Pick(r, 1500, 3000), Exit: 0}}}
				sc.Scripts["dt"] = &TokenScript{Launches: []simos.Script{{LifeMs: Pick(r, 1000, 2500, 4000), Exit: Pick(r, 0, 1)}}}
				sc.Scripts["dm"] = &TokenScript{Launches: []simos.Script{{LifeMs: 500}}}
				sc.IterMode = Pick(r, 1, 2, 3)
				sc.Arm = "disableddep"
				return sc
			}
			if r.P(400) {
				var ops []Op
				for i := 0; i < r.Range(1, 3); i++ {
					p := sc.Project.Procs[r.Intn(len(sc.Project.Procs))]
					ops = append(ops, Op{AtMs: whenMs(r, 12000), Op: Pick(r, "start", "restart", "start", "stop"), Arg: p.Name})
				}
				sortOps(ops)
				sc.Clients = append(sc.Clients, Client{Name: "c1", Ops: ops})
				sc.Arm = "api"
			}
			return sc
		},
		Check: func(sc *Scenario, res *RunResult, t *Truth) []Violation { return checkC01(sc, t) },
		NonTrivial: func(sc *Scenario, res *RunResult, t *Truth) bool {
			for rep, insts := range t.ByRep {
				if p := sc.specOfReplica(rep); p != nil && len(p.DependsOn) > 0 && len(insts) > 0 {
					return true
				}
			}
			return false
		},
	})

	register(&PropDef{ID: "C05", Rule: "seeded finite projects with chains up to depth 4 in which dependencies fail in every way (non-zero exit after their restarts, start error, bad working directory, exit before the ready line or the first probe success, split ready line that never matches); non-trivial = at least one process had an unsatisfiable dependency; distinct = distinct trace hash",
		Gen: func(seed uint64, idx int, tier string) *Scenario {
			sc, r := baseScenario("C05", seed)
			k := lifecycleKnobs()
			k.Finite = true
			k.MinProcs, k.MaxProcs = 2, 6
			k.EdgeP = 550
			k.FailExitP = 500
			k.StartFailP = 120
			k.NeverReadyP = 450
			k.MaxLifeMs = 4000
			k.RestartP = 250
			k.Conds = []string{"process_completed_successfully", "process_completed_successfully", "process_healthy", "process_log_ready", "process_completed"}
			GenCore(r, k, sc)
			if r.P(300) {
				sc.Project.Procs[len(sc.Project.Procs)-1].ExitOnSkipped = true
			}
			sc.Arm = "natural"
			sc.RunForMs = 120000
			if r.P(200) {
				addRedoPair(r, sc)
				sc.Arm = "redo"
				sc.RunForMs = 25000
			} else if r.P(150) {
				// a dependency that is stopped by the user before it ever became ready
				addStopUnreadyPair(r, sc)
				sc.Arm = "stopunready"
				sc.RunForMs = 25000
			}
			return sc
		},
		Check: func(sc *Scenario, res *RunResult, t *Truth) []Violation { return checkC05(sc, t) },
		NonTrivial: func(sc *Scenario, res *RunResult, t *Truth) bool {
			for _, trs := range t.Trans {
				for _, tr := range trs {
					if tr.State == "Skipped" {
						return true
					}
				}
			}
			return false
		},
	})

	register(&PropDef{ID: "C09", Rule: "seeded projects with the full fault mix and a polling observer; every status transition (synchronous hook) is checked against the legal relation and the reported state is compared with the simulated process table at every stable point; non-trivial = at least 3 distinct statuses were reported; distinct = distinct trace hash",
		Gen: func(seed uint64, idx int, tier string) *Scenario {
			sc, r := baseScenario("C09", seed)
			k := lifecycleKnobs()
			k.StartFailP = 100
			if r.P(500) {
				k.Finite = true
				sc.Arm = "natural"
				sc.RunForMs = 120000
			}
			GenCore(r, k, sc)
			if sc.Arm == "" && r.P(100) {
				// a process in its back-off while a project shutdown is held up by a slow one
				addHeldShutdown(r, sc, sc.Project.Procs[r.Intn(len(sc.Project.Procs))])
				sc.RunForMs = 40000
				return sc
			}
			if sc.Arm == "" && r.P(150) {
				// a pending process is stopped and started again while the goroutine of the
				// stopped instance is still waiting for a dependency; another dependency is
				// restarted in between, so the new instance stays Pending long after the old
				// goroutine has finished waiting
				a := &ProcSpec{Name: "sa", Token: "sa"}
				b := &ProcSpec{Name: "sb", Token: "sb"}
				d := &ProcSpec{Name: "sd", Token: "sd", DependsOn: map[string]string{"sa": "process_completed", "sb": "process_completed"}}
				sc.Scripts["sa"] = &TokenScript{Launches: []simos.Script{{LifeMs: Pick(r, 6000, 7000)}}}
				sc.Scripts["sb"] = &TokenScript{Launches: []simos.Script{{LifeMs: 2000}, {LifeMs: Pick(r, 8000, 9000)}}}
				sc.Scripts["sd"] = &TokenScript{Launches: []simos.Script{{LifeMs: 1000}}}
				sc.Project.Procs = append(sc.Project.Procs, a, b, d)
				sc.Clients = append(sc.Clients, Client{Name: "stale", Ops: []Op{{AtMs: 1000, Op: "stop", Arg: "sd"}, {AtMs: 3000, Op: "restart", Arg: "sb"}, {AtMs: Pick(r, 4500, 5000), Op: "start", Arg: "sd"}}})
				sc.Arm = "quiesce"
				sc.RunForMs = 25000
				return sc
			}
			if sc.Arm == "" && r.P(600) {
				var ops []Op
				for i := 0; i < r.Range(1, 4); i++ {
					p := sc.Project.Procs[r.Intn(len(sc.Project.Procs))]
					ops = append(ops, Op{AtMs: whenMs(r, 15000), Op: Pick(r, "stop", "start", "restart", "stop"), Arg: p.Name})
				}
				sortOps(ops)
				sc.Clients = append(sc.Clients, Client{Name: "c1", Ops: ops})
				sc.Arm = "quiesce"
			}
			// state queries in flight at the instants at which commands exit (the TUI and
			// REST clients poll all the time)
			if r.P(700) {
				var poll []Op
				for _, p := range sc.Project.Procs {
					if ts := sc.Scripts[p.Token]; ts != nil {
						for _, l := range ts.Launches {
							if l.LifeMs >= 0 && r.P(600) {
								poll = append(poll, Op{AtMs: l.LifeMs, Op: Pick(r, "states", "state", "projstate"), Arg: p.Name})
							}
						}
					}
				}
				for i := 0; i < r.Range(2, 8); i++ {
					poll = append(poll, Op{AtMs: whenMs(r, 12000), Op: "states"})
				}
				sortOps(poll)
				sc.Clients = append(sc.Clients, Client{Name: "poll", Ops: poll})
				// (several observers at once, as a TUI beside a REST client)
				for k := 0; k < r.Range(0, 2); k++ {
					sc.Clients = append(sc.Clients, Client{Name: fmt.Sprintf("poll%d", k), Ops: append([]Op(nil), poll...)})
				}
			}
			// stop requests that arrive at the very instant at which the first command of a
			// process ends by itself (the final state is being recorded while the stop looks at it)
			if r.P(450) {
				for _, p := range sc.Project.Procs {
					if ts := sc.Scripts[p.Token]; ts != nil && len(ts.Launches) > 0 && ts.Launches[0].LifeMs > 0 && len(p.DependsOn) == 0 && !p.Disabled && r.P(800) {
						sc.Clients = append(sc.Clients, Client{Name: "atexit-" + p.Name, Ops: []Op{{AtMs: ts.Launches[0].LifeMs, Op: Pick(r, "stop", "stop", "restart"), Arg: p.Name}}})
						if sc.Arm == "" {
							sc.Arm = "quiesce"
						}
					}
				}
			}
			return sc
		},
		Check: func(sc *Scenario, res *RunResult, t *Truth) []Violation { return checkC09(sc, t) },
		NonTrivial: func(sc *Scenario, res *RunResult, t *Truth) bool {
			seen := map[string]bool{}
			for _, trs := range t.Trans {
				for _, tr := range trs {
					seen[tr.State] = true
				}
			}
			return len(seen) >= 3
		},
	})

	register(&PropDef{ID: "C12", Rule: "seeded DAGs (chains, fan-in, fan-out, diamonds) of long-running processes with seeded termination lags, ordered shutdown requested at a seeded instant (subsets completed/pending/running); non-trivial = at least one dependency with a live dependent was signalled; distinct = distinct trace hash",
		Gen: func(seed uint64, idx int, tier string) *Scenario {
			sc, r := baseScenario("C12", seed)
			k := lifecycleKnobs()
			k.MinProcs, k.MaxProcs = 2, 7
			k.EdgeP = 450
			k.SlowDeathP = 700
			k.RestartP = 150
			k.Conds = []string{"process_started", "process_started", "process_log_ready", "process_completed"}
			GenCore(r, k, sc)
			sc.OrderedShutdown = true
			sc.RunForMs = 40000
			at := whenMs(r, 10000)
			sc.Clients = append(sc.Clients, Client{Name: "sd", Ops: []Op{{AtMs: at, Op: "shutdown"}}})
			// replicated dependents whose replicas take different times to die
			if r.P(300) {
				dep := sc.Project.Procs[r.Intn(len(sc.Project.Procs))]
				if !dep.Disabled {
					n := r.Range(2, 4)
					rp := &ProcSpec{Name: "rep", Token: "rep.{{.PC_REPLICA_NUM}}", Replicas: n, DependsOn: map[string]string{dep.Name: "process_started"}}
					for i := 0; i < n; i++ {
						sc.Scripts[fmt.Sprintf("rep.%d", i)] = &TokenScript{Launches: []simos.Script{{LifeMs: -1, TermLagMs: Pick(r, 0, 200, 800, 2500)}}}
					}
					sc.Project.Procs = append(sc.Project.Procs, rp)
				}
			}
			// a daemon among the dependents: it is "down" when its shutdown command has finished
			if r.P(250) {
				dep := sc.Project.Procs[r.Intn(len(sc.Project.Procs))]
				if !dep.Disabled && dep.Replicas <= 1 {
					if ts := sc.Scripts[dep.Token]; ts != nil {
						for l := range ts.Launches {
							ts.Launches[l].LifeMs, ts.Launches[l].StartErr = -1, "" // the dependency stays up until it is stopped
						}
					}
					dm := &ProcSpec{Name: "dm", Token: "dm", IsDaemon: true, StopCmd: "dm", DependsOn: map[string]string{dep.Name: "process_started"}}
					if r.P(500) {
						dm.StopTimeout = iptr(Pick(r, 5, 8))
					}
					sc.Scripts["dm"] = &TokenScript{Launches: []simos.Script{{LifeMs: Pick(r, 50, 300), Exit: 0}}}
					sc.Scripts["simstop:dm"] = &TokenScript{Launches: []simos.Script{{LifeMs: Pick(r, 500, 1500, 3000), Exit: 0}}}
					sc.Project.Procs = append(sc.Project.Procs, dm)
					sc.Strategy.StallPermille = 0 // (a stalled supervisor may find the command's time-out expired before it starts it)
				}
			}
			// a dependent that the user is already stopping (and that dies slowly) when the
			// shutdown begins
			if r.P(300) && at > 200 {
				var cands []*ProcSpec
				for _, p := range sc.Project.Procs {
					if len(p.DependsOn) > 0 && p.Replicas <= 1 && !p.Disabled && !p.IsDaemon {
						cands = append(cands, p)
					}
				}
				if len(cands) > 0 {
					p := cands[r.Intn(len(cands))]
					ts := sc.Scripts[p.Token]
					for l := range ts.Launches {
						ts.Launches[l].LifeMs = -1
						ts.Launches[l].TermLagMs = Pick(r, 1500, 3000)
						ts.Launches[l].Ignore = nil
					}
					sc.Clients = append(sc.Clients, Client{Name: "prestop", Ops: []Op{{AtMs: at - Pick(r, 100, 200), Op: Pick(r, "stop", "restart"), Arg: p.Name}}})
				}
			}
			late := func() {
				sc.Strategy.StallPermille = 0
				if sc.Clients[0].Ops[0].AtMs < 3500 {
					sc.Clients[0].Ops[0].AtMs = Pick(r, 3500, 5000)
				}
			}
			if r.P(120) {
				// a dependency that had completed (that was the condition) and has been started
				// again by hand: it is running when the shutdown begins, like its dependent
				cond := Pick(r, "process_completed", "process_completed_successfully")
				sc.Project.Procs = append(sc.Project.Procs, &ProcSpec{Name: "mg", Token: "mg"}, &ProcSpec{Name: "ap", Token: "ap", DependsOn: map[string]string{"mg": cond}})
				sc.Scripts["mg"] = &TokenScript{Launches: []simos.Script{{LifeMs: Pick(r, 100, 500), Exit: 0}, {LifeMs: -1, TermLagMs: Pick(r, 0, 100)}}}
				sc.Scripts["ap"] = &TokenScript{Launches: []simos.Script{{LifeMs: -1, TermLagMs: Pick(r, 500, 1500, 3000)}}}
				sc.Clients = append(sc.Clients, Client{Name: "again", Ops: []Op{{AtMs: Pick(r, 1500, 2500), Op: "start", Arg: "mg"}}})
				late()
			}
			if r.P(120) {
				// a dependent whose shutdown command ends it and then reports a failure: its
				// dependency is still stopped, after it, and the shutdown completes
				sc.Project.Procs = append(sc.Project.Procs, &ProcSpec{Name: "fb", Token: "fb"}, &ProcSpec{Name: "fw", Token: "fw", StopCmd: "fw", DependsOn: map[string]string{"fb": "process_started"}})
				sc.Scripts["fb"] = &TokenScript{Launches: []simos.Script{{LifeMs: -1, TermLagMs: Pick(r, 0, 100)}}}
				sc.Scripts["fw"] = &TokenScript{Launches: []simos.Script{{LifeMs: -1, TermLagMs: Pick(r, 0, 10)}}}
				sc.Scripts["simstop:fw"] = &TokenScript{Launches: []simos.Script{{LifeMs: Pick(r, 300, 600), Exit: 1, KillToken: "fw", KillSig: 15, KillAtMs: 5}}}
				late()
			}
			if r.P(120) {
				// the goroutine of an instance that was stopped while it was pending unwinds
				// late, when its successor is running: the successor is still a dependent
				sc.Project.Procs = append(sc.Project.Procs, &ProcSpec{Name: "gt", Token: "gt"}, &ProcSpec{Name: "gd", Token: "gd"},
					&ProcSpec{Name: "gw", Token: "gw", DependsOn: map[string]string{"gt": "process_completed", "gd": "process_started"}})
				sc.Scripts["gt"] = &TokenScript{Launches: []simos.Script{{LifeMs: Pick(r, 2000, 2500), Exit: 0}}}
				sc.Scripts["gd"] = &TokenScript{Launches: []simos.Script{{LifeMs: -1, TermLagMs: Pick(r, 0, 100)}}}
				sc.Scripts["gw"] = &TokenScript{Launches: []simos.Script{{LifeMs: -1, TermLagMs: Pick(r, 500, 1500)}}}
				sc.Clients = append(sc.Clients, Client{Name: "again", Ops: []Op{{AtMs: 500, Op: "stop", Arg: "gw"}, {AtMs: 1000, Op: "start", Arg: "gw"}}})
				late()
			}
			if r.P(120) {
				// a process that only starts on request, started by hand, with a running dependency
				sc.Project.Procs = append(sc.Project.Procs, &ProcSpec{Name: "bd", Token: "bd"}, &ProcSpec{Name: "tl", Token: "tl", Disabled: true, DependsOn: map[string]string{"bd": "process_started"}})
				sc.Scripts["bd"] = &TokenScript{Launches: []simos.Script{{LifeMs: -1, TermLagMs: Pick(r, 0, 100)}}}
				sc.Scripts["tl"] = &TokenScript{Launches: []simos.Script{{LifeMs: -1, TermLagMs: Pick(r, 500, 1500, 3000)}}}
				sc.Clients = append(sc.Clients, Client{Name: "manual", Ops: []Op{{AtMs: Pick(r, 1000, 2500), Op: "start", Arg: "tl"}}})
				late()
			}
			if rp := sc.Project.Proc("rep"); rp != nil && r.P(500) {
				// replicas added by a scale request are dependents like the configured ones;
				// the added ones take the longest to die
				n := rp.Replicas + r.Range(1, 2)
				for i := rp.Replicas; i < n; i++ {
					sc.Scripts[fmt.Sprintf("rep.%d", i)] = &TokenScript{Launches: []simos.Script{{LifeMs: -1, TermLagMs: Pick(r, 1500, 3000)}}}
				}
				sc.Clients = append(sc.Clients, Client{Name: "grow", Ops: []Op{{AtMs: Pick(r, 1500, 2500), Op: "scale", Arg: "rep-0", N: n}}})
				late()
			}
			return sc
		},
		Check: func(sc *Scenario, res *RunResult, t *Truth) []Violation { return checkC12(sc, t) },
		NonTrivial: func(sc *Scenario, res *RunResult, t *Truth) bool {
			sd := t.firstShutdownSeq(sc)
			if sd < 0 {
				return false
			}
			live := map[string]bool{}
			for _, in := range t.LiveAt(sd) {
				live[in.Replica] = true
			}
			for _, p := range sc.Project.Procs {
				if live[p.Name] {
					for d := range p.DependsOn {
						if live[d] {
							return true
						}
					}
				}
			}
			return false
		},
	})
}

func init() {
	register(&PropDef{ID: "C08", Rule: "1-3 processes (fast exit, slow reaction to the stop signal, restarting, pending on a dependency) and 2-4 concurrent client tasks each issuing 3-8 seeded start/stop/restart requests, including unknown names and duplicates at the same instant; instance-overlap oracle at every launch, outcome-vs-activity oracle per request; non-trivial = at least two requests overlapped or landed at the same fake instant; distinct = distinct trace hash",
		Gen: func(seed uint64, idx int, tier string) *Scenario {
			sc, r := baseScenario("C08", seed)
			if r.P(70) {
				genC08Rename(r, sc)
				return sc
			}
			if r.P(70) {
				genC08UpdatePending(r, sc)
				return sc
			}
			if r.P(40) {
				// a stop and a restart of the same process at the same instant, under a
				// supervisor whose goroutines are set aside for seconds now and then (F13): the
				// stop may have looked the instance up before the restart replaced it. Whatever
				// happened, a later, ordinary stop still stops what runs.
				sc.Project = &ProjectSpec{}
				sc.Scripts = map[string]*TokenScript{}
				sc.Project.Procs = append(sc.Project.Procs, &ProcSpec{Name: "p0", Token: "p0"}, &ProcSpec{Name: "p1", Token: "p1"})
				life := simos.Script{LifeMs: -1, TermLagMs: Pick(r, 0, 10)}
				sc.Scripts["p0"] = &TokenScript{Launches: []simos.Script{life, life, life, life}}
				sc.Scripts["p1"] = &TokenScript{Launches: []simos.Script{life}}
				sc.Clients = []Client{
					{Name: "s", Ops: []Op{{AtMs: 2000, Op: "stop", Arg: "p0"}}},
					{Name: "rs", Ops: []Op{{AtMs: 2000, Op: "restart", Arg: "p0"}}},
					{Name: "late", Ops: []Op{{AtMs: 25000, Op: "stop", Arg: "p0"}}},
				}
				sc.Strategy = genStrategy(r)
				sc.Strategy.StallPermille = 0
				sc.Arm = "stalestop"
				sc.ForceStallTask, sc.ForceStallMs, sc.StallSweep = "client:s", Pick(r, 2500, 4000), 40
				sc.RunForMs = 40000
				return sc
			}
			k := lifecycleKnobs()
			k.MinProcs, k.MaxProcs = 1, 3
			k.RestartP = 500
			k.EdgeP = 300
			k.SlowDeathP = 500
			k.StartFailP = 30
			k.DisabledP = 100
			k.MaxLifeMs = 6000
			k.Conds = []string{"process_completed", "process_started", "process_log_ready", "process_completed_successfully"}
			GenCore(r, k, sc)
			sc.Arm = "quiesce"
			sc.RunForMs = 25000
			if r.P(150) {
				// a daemon with a slow launcher: requests meet it while it is Launching and after
				addSlowDaemon(r, sc, "dm")
				sc.Strategy.StallPermille = 0
			}
			nc := r.Range(2, 4)
			for c := 0; c < nc; c++ {
				var ops []Op
				for i := 0; i < r.Range(3, 8); i++ {
					name := sc.Project.Procs[r.Intn(len(sc.Project.Procs))].Name
					if r.P(80) {
						name = Pick(r, "nosuch", "p9", "")
					}
					ops = append(ops, Op{AtMs: whenMs(r, 14000), Op: Pick(r, "start", "stop", "restart", "start", "stop"), Arg: name})
				}
				sortOps(ops)
				sc.Clients = append(sc.Clients, Client{Name: fmt.Sprintf("c%d", c), Ops: ops})
			}
			return sc
		},
		Check: func(sc *Scenario, res *RunResult, t *Truth) []Violation { return checkC08(sc, t) },
		NonTrivial: func(sc *Scenario, res *RunResult, t *Truth) bool {
			for i, a := range t.Calls {
				for _, b := range t.Calls[i+1:] {
					if a.Client != b.Client && (b.CallSeq < a.RetSeq || a.CallT == b.CallT) {
						return true
					}
				}
			}
			return false
		},
	})
}

func init() {
	register(&PropDef{ID: "C20", Rule: "projects whose processes exit, restart and log while 2-5 client tasks issue seeded state/log/info queries, log subscriptions, start/stop/restart/scale/shutdown requests and a poller repeats the TUI's 1 s refresh; run under the Go race detector with happens-before-faithful simulated primitives (scheduler hand-offs excluded), plus panic and blocked-forever detection; non-trivial = at least one state-changing request overlapped another request or a life-cycle event; distinct = distinct trace hash",
		Gen: func(seed uint64, idx int, tier string) *Scenario {
			sc, r := baseScenario("C20", seed)
			k := lifecycleKnobs()
			k.MinProcs, k.MaxProcs = 1, 5
			k.RestartP = 500
			k.MaxLifeMs = 5000
			k.StartFailP = 60
			GenCore(r, k, sc)
			// make the processes talk
			for _, p := range sc.Project.Procs {
				ts := sc.Scripts[p.Token]
				for l := range ts.Launches {
					if r.P(600) {
						n := r.Range(1, 6)
						for i := 0; i < n; i++ {
							ts.Launches[l].Out = append(ts.Launches[l].Out, simos.OutChunk{AtMs: whenMs(r, 4000), Stream: Pick(r, 1, 2), Data: fmt.Sprintf("line %d of %s\n", i, p.Name)})
						}
						sortOut(ts.Launches[l].Out)
					}
				}
			}
			if d := sc.Project.Procs[0]; r.P(250) && !d.Disabled && d.ReadyLine == "" && d.Readiness == nil {
				// a daemon: its launcher takes a moment, requests meet it while it is Launching and
				// after; it is stopped through its shutdown command
				d.IsDaemon = true
				d.StopCmd = d.Token
				d.StopTimeout = nil
				ts := sc.Scripts[d.Token]
				for l := range ts.Launches {
					ts.Launches[l] = simos.Script{LifeMs: Pick(r, 200, 1500, 3000), Exit: 0}
				}
				sc.Scripts["simstop:"+d.Token] = &TokenScript{Launches: []simos.Script{{LifeMs: Pick(r, 10, 300), Exit: 0}}}
				if r.P(400) {
					d.Liveness = &ProbeSpec{Token: d.Token, Period: iptr(1), FailureThreshold: iptr(Pick(r, 1, 2))}
					sc.Scripts["simprobe:"+d.Token] = &TokenScript{Launches: []simos.Script{{LifeMs: 10, Exit: Pick(r, 0, 1)}, {LifeMs: 10, Exit: 1}, {LifeMs: 10, Exit: Pick(r, 0, 1)}}}
				}
			}
			sc.Arm = "concurrent"
			sc.RunForMs = 15000
			sc.QuietMs = 5000
			sc.Observe = r.P(500)
			names := []string{}
			for _, p := range sc.Project.Procs {
				names = append(names, p.Name)
			}
			names = append(names, "nosuch")
			nc := r.Range(2, 5)
			for c := 0; c < nc; c++ {
				var ops []Op
				for i := 0; i < r.Range(3, 10); i++ {
					name := names[r.Intn(len(names))]
					op := Op{AtMs: whenMs(r, 10000), Arg: name}
					switch r.Intn(16) {
					case 0, 1, 2:
						op.Op = "states"
					case 3:
						op.Op = "state"
					case 4:
						op.Op = "info"
					case 5:
						op.Op, op.N, op.M = "log", r.Range(-1, 20), r.Range(-1, 20)
					case 6:
						op.Op = "projstate"
					case 7:
						op.Op, op.N = "subscribe", r.Range(0, 10)
					case 8:
						op.Op = "unsubscribe"
					case 9, 10:
						op.Op = "start"
					case 11, 12:
						op.Op = "stop"
					case 13:
						op.Op = "restart"
					case 14:
						op.Op, op.N = "scale", r.Range(0, 4)
					case 15:
						if r.P(300) {
							op.Op = "shutdown"
						} else {
							op.Op = "names"
						}
					}
					ops = append(ops, op)
				}
				sortOps(ops)
				sc.Clients = append(sc.Clients, Client{Name: fmt.Sprintf("c%d", c), Ops: ops})
			}
			// the TUI's access pattern
			var poll []Op
			for i := 0; i < r.Range(3, 12); i++ {
				poll = append(poll, Op{AtMs: 1000 * i, Op: "states"})
			}
			sc.Clients = append(sc.Clients, Client{Name: "tui", Ops: poll})
			if r.P(350) {
				// live updates of the project (through UpdateProject and by reloading its files)
				// racing with everything else
				up := cloneSpec(sc.Project)
				if len(up.Procs) > 1 && r.P(500) {
					gone := up.Procs[len(up.Procs)-1].Name
					up.Procs = up.Procs[:len(up.Procs)-1]
					for _, q := range up.Procs {
						delete(q.DependsOn, gone)
						if len(q.DependsOn) == 0 {
							q.DependsOn = nil
						}
					}
				}
				if r.P(600) {
					up.Procs[0].Env = append(up.Procs[0].Env, "UPD=1")
				}
				up.Procs = append(up.Procs, &ProcSpec{Name: "nu", Token: "nu"})
				sc.Scripts["nu"] = &TokenScript{Launches: []simos.Script{{LifeMs: Pick(r, 500, -1), TermLagMs: Pick(r, 0, 100)}}}
				sc.Updates = []*ProjectSpec{up, cloneSpec(sc.Project)}
				t0 := whenMs(r, 8000)
				sc.Clients = append(sc.Clients, Client{Name: "upd", Ops: []Op{{AtMs: t0, Op: "update", N: 0}, {AtMs: t0 + Pick(r, 0, 500, 2000), Op: Pick(r, "update", "reload"), N: 1}}})
			}
			if r.P(300) {
				// one client talks REST (real router, handlers and bundled client, in-process transport)
				sc.Rest = true
				for oi := range sc.Clients[0].Ops {
					if !restUnsupported[sc.Clients[0].Ops[oi].Op] {
						sc.Clients[0].Ops[oi].Rest = true
					}
				}
			}
			if r.P(250) {
				// a chatty process whose in-memory log (small log_length) drops its oldest lines
				// many times while a client keeps reading windows of it
				sc.Project.LogLength = Pick(r, 5, 20)
				chat := &ProcSpec{Name: "chat", Token: "chat"}
				scr := simos.Script{LifeMs: 8000, TermLagMs: 0}
				genOutput(r, &scr, "chat", 0, sc.Project.LogLength+110)
				sc.Scripts["chat"] = &TokenScript{Launches: []simos.Script{scr}}
				sc.Project.Procs = append(sc.Project.Procs, chat)
				var reads []Op
				for i := r.Range(5, 15); i > 0; i-- {
					reads = append(reads, Op{AtMs: whenMs(r, 8000), Op: "log", Arg: "chat", N: r.Range(0, 5), M: Pick(r, 0, 50, 200), Rest: r.P(500)})
				}
				sc.Rest = true
				sortOps(reads)
				sc.Clients = append(sc.Clients, Client{Name: "lr", Ops: reads})
			}
			return sc
		},
		Check: func(sc *Scenario, res *RunResult, t *Truth) []Violation { return checkC20(sc, res, t) },
		NonTrivial: func(sc *Scenario, res *RunResult, t *Truth) bool {
			for _, c := range t.Calls {
				switch c.Op {
				case "start", "stop", "restart", "scale", "shutdown", "subscribe":
					for _, d := range t.Calls {
						if d != c && d.CallSeq < c.RetSeq && (d.RetSeq < 0 || d.RetSeq > c.CallSeq) {
							return true
						}
					}
					for _, in := range t.Insts {
						if in.ExitSeq > c.CallSeq && in.ExitSeq < c.RetSeq {
							return true
						}
					}
				}
			}
			return false
		},
	})
}

// addSlowDaemon appends a daemon whose launcher takes a while (requests meet it while it is
// Launching and after) and that is stopped through its shutdown command.
func addSlowDaemon(r *R, sc *Scenario, name string) *ProcSpec {
	d := &ProcSpec{Name: name, Token: name, IsDaemon: true, StopCmd: name}
	sc.Scripts[name] = &TokenScript{Launches: []simos.Script{{LifeMs: Pick(r, 200, 1500, 3000), Exit: 0}, {LifeMs: Pick(r, 200, 1500), Exit: 0}}}
	sc.Scripts["simstop:"+name] = &TokenScript{Launches: []simos.Script{{LifeMs: Pick(r, 10, 300), Exit: 0}}}
	sc.Project.Procs = append(sc.Project.Procs, d)
	return d
}

// addHeldShutdown: a shutdown that is held up by a slow process while the subject is in (or
// about to enter) its back-off wait
func addHeldShutdown(r *R, sc *Scenario, subject *ProcSpec) {
	sc.Arm = "heldshutdown"
	subject.Restart = Pick(r, "always", "on_failure")
	subject.Backoff = iptr(Pick(r, 1, 2, 3))
	subject.MaxRestarts = 0
	subject.DependsOn = nil
	life := Pick(r, 1000, 2000, 3500)
	sc.Scripts[subject.Token] = &TokenScript{Launches: []simos.Script{{LifeMs: life, Exit: 1}}}
	slow := &ProcSpec{Name: "slow", Token: "slow", StopTimeout: iptr(Pick(r, 4, 6, 9))}
	if r.P(500) {
		sc.OrderedShutdown = true
		slow.StopTimeout = nil
		slow.DependsOn = map[string]string{subject.Name: "process_started"}
	}
	sc.Scripts["slow"] = &TokenScript{Launches: []simos.Script{{LifeMs: -1, TermLagMs: Pick(r, 3000, 5000, 8000)}}}
	sc.Project.Procs = append(sc.Project.Procs, slow)
	at := life + Pick(r, -300, 100, 500, 900)
	sc.Clients = append(sc.Clients, Client{Name: "sd", Ops: []Op{{AtMs: at, Op: "shutdown"}}})
	sc.Strategy.StallPermille = 0
}

// addRedoPair appends a dependency X and a dependent D (process_log_ready or
// process_healthy) and a client that restarts X after it has become ready - its second
// life never becomes ready - and then starts D again: readiness of a previous life must
// not satisfy the condition.
func addRedoPair(r *R, sc *Scenario) {
	x := &ProcSpec{Name: "rx", Token: "rx"}
	d := &ProcSpec{Name: "rd", Token: "rd"}
	life1 := Pick(r, 1500, 2500, -1)
	first := simos.Script{LifeMs: life1, TermLagMs: Pick(r, 0, 10, 100)}
	second := simos.Script{LifeMs: Pick(r, 500, 2000, 4000), Exit: Pick(r, 0, 0, 3)}
	if r.P(500) {
		x.ReadyLine = "is ready"
		first.Out = []simos.OutChunk{{AtMs: Pick(r, 100, 500, 1000), Stream: 1, Data: "rx is ready\n"}}
		second.Out = []simos.OutChunk{{AtMs: 100, Stream: 1, Data: "rx warming up\n"}}
		d.DependsOn = map[string]string{"rx": "process_log_ready"}
	} else {
		x.Readiness = &ProbeSpec{Token: "rx", Period: iptr(1), InitialDelay: iptr(0), FailureThreshold: iptr(50)}
		ts := &TokenScript{}
		for i := 0; i < Pick(r, 1, 2); i++ {
			ts.Launches = append(ts.Launches, simos.Script{LifeMs: 10, Exit: 0})
		}
		if life1 < 0 {
			// probes keep running while the first life lasts
			for i := 0; i < 6; i++ {
				ts.Launches = append(ts.Launches, simos.Script{LifeMs: 10, Exit: 0})
			}
		}
		ts.Launches = append(ts.Launches, simos.Script{LifeMs: 10, Exit: 1})
		sc.Scripts["simprobe:rx"] = ts
		if life1 < 0 {
			first.LifeMs = 3500
		}
		if r.P(400) {
			// the second life ends before its first probe run: whatever the first life's probes
			// said is not its readiness
			x.Readiness.InitialDelay = iptr(3)
			first.LifeMs = 4200
			second.LifeMs = Pick(r, 500, 2000)
		}
		d.DependsOn = map[string]string{"rx": "process_healthy"}
	}
	sc.Scripts["rx"] = &TokenScript{Launches: []simos.Script{first, second}}
	sc.Scripts["rd"] = &TokenScript{Launches: []simos.Script{{LifeMs: Pick(r, 300, 1000)}}}
	sc.Project.Procs = append(sc.Project.Procs, x, d)
	t1 := Pick(r, 5000, 6000, 7500)
	sc.Clients = append(sc.Clients, Client{Name: "redo", Ops: []Op{
		{AtMs: t1, Op: "restart", Arg: "rx"},
		{AtMs: t1 + Pick(r, 0, 1200, 2500, 6000), Op: "start", Arg: "rd"},
	}})
}

// addStopUnreadyPair appends a dependency X with a ready line that is stopped by the user
// before it ever becomes ready - while it is Pending on a slow dependency of its own, in
// the back-off of a crash loop, or running - and a dependent D (process_log_ready): D must
// never be launched.
func addStopUnreadyPair(r *R, sc *Scenario) {
	x := &ProcSpec{Name: "ux", Token: "ux", ReadyLine: "is ready"}
	d := &ProcSpec{Name: "ud", Token: "ud", DependsOn: map[string]string{"ux": "process_log_ready"}}
	stopAt := 0
	switch r.Intn(3) {
	case 0: // pending on a slow process
		slow := &ProcSpec{Name: "uslow", Token: "uslow"}
		sc.Scripts["uslow"] = &TokenScript{Launches: []simos.Script{{LifeMs: 6000}}}
		sc.Project.Procs = append(sc.Project.Procs, slow)
		x.DependsOn = map[string]string{"uslow": "process_completed"}
		sc.Scripts["ux"] = &TokenScript{Launches: []simos.Script{{LifeMs: 3000, Out: []simos.OutChunk{{AtMs: 500, Stream: 1, Data: "ux is ready\n"}}}}}
		stopAt = Pick(r, 0, 1000, 3000)
	case 1: // crash loop: stopped in the back-off
		x.Restart = "on_failure"
		x.Backoff = iptr(Pick(r, 2, 3))
		sc.Scripts["ux"] = &TokenScript{Launches: []simos.Script{{LifeMs: 700, Exit: 1, Out: []simos.OutChunk{{AtMs: 100, Stream: 2, Data: "ux crashed\n"}}}}}
		stopAt = Pick(r, 1200, 1700, 4500)
	case 2: // running, not yet ready
		sc.Scripts["ux"] = &TokenScript{Launches: []simos.Script{{LifeMs: -1, TermLagMs: Pick(r, 0, 100), Out: []simos.OutChunk{{AtMs: 5000, Stream: 1, Data: "ux is ready\n"}}}}}
		stopAt = Pick(r, 500, 2000, 4000)
	}
	sc.Scripts["ud"] = &TokenScript{Launches: []simos.Script{{LifeMs: 500}}}
	sc.Project.Procs = append(sc.Project.Procs, x, d)
	sc.Clients = append(sc.Clients, Client{Name: "stopper", Ops: []Op{{AtMs: stopAt, Op: "stop", Arg: "ux"}}})
}

func init() {
	register(&PropDef{ID: "C18", Rule: "the real ProcessLogBuffer under 1-3 writer tasks, reader tasks issuing (offset, limit) pairs from -3..len+3 and 0-3 followers (tail 0..len+2, unsubscribing after a seeded time); arms: concurrent (porcupine linearizability of Write/GetLogRange against a sequential log + follower sequence oracle), grid (exhaustive (offset, limit) grid on logs of 0-12 lines), trim (window bounds while writing past log_length+slack); non-trivial = at least two tasks overlapped on the buffer, or a grid/trim arm; distinct = distinct trace hash",
		Gen: func(seed uint64, idx int, tier string) *Scenario {
			sc, r := baseScenario("C18", seed)
			sc.Observe = false
			spec := &LogBufSpec{}
			sc.LogBuf = spec
			sc.Strategy = genStrategy(r)
			sc.Strategy.StallPermille = 0
			switch r.Intn(10) {
			case 0:
				sc.Arm = "grid"
				spec.Size = Pick(r, 0, 5, 20, 1000)
				spec.Grid = r.Range(0, 12)
				return sc
			case 1:
				sc.Arm = "trim"
				spec.Size = Pick(r, 0, 1, 5, 20, 50)
				spec.Trim = spec.Size*3 + r.Range(150, 450)
				return sc
			case 2, 3:
				genC18WS(r, sc)
				return sc
			case 4:
				// windows are taken while the writers push the log past log_length + slack
				sc.Arm = "trimrace"
				spec.Race = true
				spec.Size = Pick(r, 1, 5, 20)
				for i := 0; i < r.Range(1, 2); i++ {
					spec.Writers = append(spec.Writers, LBWriter{Lines: r.Range(130, 260), GapMs: 0, StartMs: 0})
				}
				for i := 0; i < r.Range(1, 3); i++ {
					rd := LBReader{GapMs: 0}
					for k := 0; k < r.Range(20, 60); k++ {
						rd.Calls = append(rd.Calls, [2]int{Pick(r, 0, 3, 50, 1<<30), Pick(r, 0, 0, 7, 200)})
					}
					spec.Readers = append(spec.Readers, rd)
				}
				return sc
			}
			sc.Arm = "concurrent"
			spec.Size = Pick(r, 40, 100, 1000)
			nw := r.Range(1, 3)
			total := 0
			for i := 0; i < nw; i++ {
				w := LBWriter{Lines: r.Range(1, 8), GapMs: Pick(r, 0, 0, 1, 10), StartMs: Pick(r, 0, 0, 5)}
				total += w.Lines
				spec.Writers = append(spec.Writers, w)
			}
			for i := 0; i < r.Range(0, 2); i++ {
				rd := LBReader{GapMs: Pick(r, 0, 0, 1, 7)}
				for k := 0; k < r.Range(1, 5); k++ {
					rd.Calls = append(rd.Calls, [2]int{r.Range(-3, total+3), r.Range(-3, total+3)})
				}
				spec.Readers = append(spec.Readers, rd)
			}
			for i := 0; i < r.Range(0, 3); i++ {
				spec.Subs = append(spec.Subs, LBSub{AtMs: Pick(r, 0, 0, 1, 5, 20), Tail: r.Range(0, total+2), ForMs: Pick(r, -1, 0, 3, 10, 50)})
			}
			return sc
		},
		Check: checkC18,
		NonTrivial: func(sc *Scenario, res *RunResult, t *Truth) bool {
			return sc.Arm != "concurrent" || res.Out.Contended > 0 || res.Out.Preemptions > 0
		},
	})
}

func init() {
	register(&PropDef{ID: "C11", Rule: "1-3 processes with seeded output scripts (0-300 unique lines over both streams, 4-100 kB lines, bursts at the instant of exit, a final line without newline, several lines per write), restarts, adversarial pipe chunking, pipes held open by a child, logger configurations (per-process / unified file, JSON / plain, flush_each_line); after the commands ended the in-memory log and the log files are compared line by line with what the simulated kernel saw written; non-trivial = at least 3 lines were written; distinct = distinct trace hash",
		Gen: func(seed uint64, idx int, tier string) *Scenario {
			sc, r := baseScenario("C11", seed)
			k := lifecycleKnobs()
			k.MinProcs, k.MaxProcs = 1, 3
			k.Finite = true
			k.EdgeP = 100
			k.RestartP = 400
			k.StartFailP = 0
			k.MaxLifeMs = 3000
			k.Conds = []string{"process_completed", "process_started"}
			GenCore(r, k, sc)
			sc.Arm = "natural"
			sc.RunForMs = 600000
			sc.QuietMs = 2000
			sc.Strategy.StallMaxMs = Pick(r, 5, 50)
			sc.Project.LogLength = Pick(r, 0, 0, 5000, 30, 5)
			big := sc.Project.LogLength > 0 && sc.Project.LogLength <= 30 && r.P(400)
			switch r.Intn(4) {
			case 0:
				sc.Project.LogLocation = "project.log"
			case 1:
				sc.Project.LogLocation = "project.log"
				sc.Project.LogNoJSON = true
			}
			sc.Project.LogFlush = r.P(300)
			for _, p := range sc.Project.Procs {
				if r.P(400) {
					p.LogLocation = p.Name + ".log"
					if p.Restart != "always" && p.Restart != "on_failure" && len(p.DependsOn) == 0 && !p.Disabled && r.P(500) {
						// an observer reads the file the moment the process is reported ended
						if ts := sc.Scripts[p.Token]; ts != nil && len(ts.Launches) > 0 && ts.Launches[0].LifeMs >= 0 && ts.Launches[0].StartErr == "" {
							sc.Clients = append(sc.Clients, Client{Name: "fw-" + p.Name, Ops: []Op{{AtMs: 0, Op: "filewhendone", Arg: p.Name, Args: []string{p.LogLocation}}}})
						}
					}
				}
				ts := sc.Scripts[p.Token]
				// one script per possible launch: the line ids must be unique across restarts
				for (p.Restart == "always" || p.Restart == "on_failure") && len(ts.Launches) < p.MaxRestarts+1 {
					ts.Launches = append(ts.Launches, ts.Launches[len(ts.Launches)-1])
				}
				for l := range ts.Launches {
					ts.Launches[l].Out = nil
					ts.Launches[l].Children = nil
					minLines := 0
					if big && l == 0 {
						minLines = sc.Project.LogLength + 110
					}
					genOutput(r, &ts.Launches[l], p.Name, l, minLines)
					if r.P(120) {
						// fault F6: reading the command's stdout fails part-way
						// (at a line boundary, or right after a '/': what is left of the line
						// then cannot be mistaken for another, complete line)
						all := ""
						for _, c := range ts.Launches[l].Out {
							if c.Stream == 1 {
								all += c.Data
							}
						}
						var cands []int
						for i := 3; i < len(all); i++ {
							if all[i-1] == '/' || all[i-1] == '\n' {
								cands = append(cands, i)
							}
						}
						if len(cands) > 0 {
							ts.Launches[l].ReadErrAt = cands[r.Intn(len(cands))]
						}
					}
					if r.P(80) {
						// a background child keeps the pipes open for a while after the exit
						ts.Launches[l].Children = []simos.Script{{LifeMs: ts.Launches[l].LifeMs + Pick(r, 100, 1000), HoldsPipes: true}}
					}
				}
				if len(ts.Launches) > 0 && ts.Launches[0].StartErr == "" && r.P(80) {
					// a log file that cannot be opened (a component of its path is a regular file):
					// the process runs, is logged in memory and ends like any other
					sc.Files = map[string]string{"blocker": "not a directory\n"}
					p.LogLocation = "blocker/" + p.Name + ".log"
					if r.P(500) {
						// or a disk that is full: the file opens and every write fails
						p.LogLocation = "/dev/full"
						if r.P(700) {
							p.RawYAML = "    log_configuration:\n      flush_each_line: true\n"
						}
					}
					ts.Launches[0].Out, ts.Launches[0].ReadErrAt = nil, 0
					genOutput(r, &ts.Launches[0], p.Name, 0, 130)
					var keep []Client
					for _, c := range sc.Clients {
						if c.Name != "fw-"+p.Name {
							keep = append(keep, c) // (there is no file to look at)
						}
					}
					sc.Clients = keep
				}
				if (p.Restart == "always" || p.Restart == "on_failure") && len(ts.Launches) >= 2 && ts.Launches[0].LifeMs >= 0 && r.P(300) {
					// the restart attempt cannot be started: what the first attempt wrote is
					// in the log all the same
					if ts.Launches[0].Exit == 0 {
						ts.Launches[0].Exit = 1
					}
					ts.Launches[1] = simos.Script{StartErr: "no such file or directory"}
					ts.Launches = ts.Launches[:2]
				}
				if p.Restart == "" && len(p.DependsOn) == 0 && !p.Disabled && len(ts.Launches) > 0 && ts.Launches[0].StartErr == "" && r.P(200) {
					// stopped while it is writing: it ignores SIGTERM, and the SIGKILL that follows
					// the time-out lands on a burst of output
					L := &ts.Launches[0]
					L.LifeMs, L.Ignore, L.Children = -1, []int{15}, nil
					tmo := Pick(r, 1, 2)
					p.StopTimeout = iptr(tmo)
					sc.Clients = append(sc.Clients, Client{Name: "stop-" + p.Name, Ops: []Op{{AtMs: 3000 - 1000*tmo, Op: "stop", Arg: p.Name}}})
				}
			}
			return sc
		},
		Check: checkC11,
		// (the line ids are unique only while every launch has a script of its own)
		Valid: func(sc *Scenario) bool {
			for _, p := range sc.Project.Procs {
				if ts := sc.Scripts[p.Token]; ts != nil && (p.Restart == "always" || p.Restart == "on_failure") && len(ts.Launches) < p.MaxRestarts+1 && ts.Launches[len(ts.Launches)-1].StartErr == "" {
					return false
				}
			}
			return true
		},
		NonTrivial: func(sc *Scenario, res *RunResult, t *Truth) bool {
			n := 0
			for _, in := range t.Insts {
				n += len(in.Writes)
			}
			return n >= 3
		},
	})
}

func init() {
	register(&PropDef{ID: "C10", JudgeCutOff: true, Rule: "1-2 processes with exec readiness probes whose initial_delay/period/timeout/thresholds are drawn from {-1,0,1,2,3,10,unset}, scripted probe outcome sequences (pass, fail, hang past the time-out, flapping) on the simulated kernel and the fake clock, all restart policies; non-trivial = at least 3 probe runs; distinct = distinct trace hash",
		Gen: func(seed uint64, idx int, tier string) *Scenario {
			sc, r := baseScenario("C10", seed)
			genC10(r, sc)
			return sc
		},
		Check: checkC10,
		NonTrivial: func(sc *Scenario, res *RunResult, t *Truth) bool {
			n := 0
			for _, in := range t.Insts {
				if in.Kind == "simprobe" {
					n++
				}
			}
			return n >= 3
		},
	})
}

func sortOut(o []simos.OutChunk) {
	for i := 1; i < len(o); i++ {
		for j := i; j > 0 && o[j].AtMs < o[j-1].AtMs; j-- {
			o[j], o[j-1] = o[j-1], o[j]
		}
	}
}

func sortOps(ops []Op) {
	for i := 1; i < len(ops); i++ {
		for j := i; j > 0 && ops[j].AtMs < ops[j-1].AtMs; j-- {
			ops[j], ops[j-1] = ops[j-1], ops[j]
		}
	}
}

var _ = fmt.Sprint

func init() {
	register(&PropDef{ID: "C13", Rule: "a replicated process s (1-11 replicas initially, 98-101 occasionally in the thorough tier; command, description and environment templated with the replica number) next to 0-2 other processes; 1-5 successive scale requests (up, down, across the 9/10 and 99/100 width boundaries, to the current value, n<1, unknown and stale names), each followed by an audit of names, states, configurations and logs and compared with the simulated process table; non-trivial = at least one successful scale request that changes the count; distinct = distinct trace hash",
		Gen: func(seed uint64, idx int, tier string) *Scenario {
			sc, r := baseScenario("C13", seed)
			genC13(r, sc, tier)
			return sc
		},
		Check: checkC13,
		Valid: func(sc *Scenario) bool {
			s := sc.Project.Proc("s")
			return s != nil && (sc.Mode != "churn" || s.Restart == "always")
		},
		NonTrivial: func(sc *Scenario, res *RunResult, t *Truth) bool {
			for _, c := range t.Calls {
				if c.Op == "scale" && c.Err == "" && c.RetSeq >= 0 {
					return true
				}
			}
			return false
		},
	})
}

func init() {
	register(&PropDef{ID: "C14", Rule: "projects of 1-5 processes (environment, working directory, restart policy, dependencies; forever-running and finite commands) receive 1-3 successive UpdateProject requests whose new configuration removes, adds, changes (command, environment, working directory, restart policy, back-off) or keeps each process, or is identical; after each, the returned status map, the listed processes, their reported configuration and the simulated process table (who kept running, who was signalled, what the new commands were launched with) are compared with the new configuration; non-trivial = at least one update request returned; distinct = distinct trace hash",
		Gen: func(seed uint64, idx int, tier string) *Scenario {
			sc, r := baseScenario("C14", seed)
			genC14(r, sc, tier)
			return sc
		},
		Check: checkC14,
		NonTrivial: func(sc *Scenario, res *RunResult, t *Truth) bool {
			for _, c := range t.Calls {
				if (c.Op == "update" || c.Op == "reload") && c.RetSeq >= 0 {
					return true
				}
			}
			return false
		},
	})
}

func init() {
	register(&PropDef{ID: "C06", Rule: "1-3 managed commands with process trees on the simulated kernel (0-2 children, grandchildren, members that ignore the stop signal or die slowly, members that left the group), shutdown parameters drawn from signal {unset, 1..31, 0, -3, 32, 64} x parent_only x timeout {unset, 1, 2, 4} x shutdown command {none, succeeds, fails, lies, hangs}; stop / restart requests at seeded instants, then a project shutdown (ordered or not); every kill(2) the code under test issues is compared with the configuration on the fake clock, and the process table is inspected after Run() returned; non-trivial = at least one signal was sent; distinct = distinct trace hash",
		Gen: func(seed uint64, idx int, tier string) *Scenario {
			sc, r := baseScenario("C06", seed)
			genC06(r, sc, tier)
			return sc
		},
		Check: checkC06,
		Valid: validC06,
		NonTrivial: func(sc *Scenario, res *RunResult, t *Truth) bool {
			for i := range t.Events {
				if t.Events[i].Kind == "os.kill" {
					return true
				}
			}
			return false
		},
	})
}

func init() {
	register(&PropDef{ID: "C19", Rule: "the workloads of C08 (concurrent start/stop/restart), C13 (scaling) and C14 (live update) with every request sent through the gin engine built by api.InitRoutes and decoded by the bundled client (in-process transport, no sockets), judged by the same oracles; plus reads (state, states, info, names, ports, hostname, project state) taken directly and through REST at the same instant and compared, and 3-10 invalid raw requests per run (unknown names, non-numeric and out-of-range path parameters, malformed bodies) that must be answered 4xx with a message, never 5xx, followed by GET /live; non-trivial = at least 3 HTTP round trips; distinct = distinct trace hash",
		Gen: func(seed uint64, idx int, tier string) *Scenario {
			return genC19(NewR(seed, 9), seed, idx, tier)
		},
		Check: checkC19,
		NonTrivial: func(sc *Scenario, res *RunResult, t *Truth) bool {
			n := 0
			for i := range t.Events {
				if t.Events[i].Kind == "http" {
					n++
				}
			}
			return n >= 3
		},
	})
}

func init() {
	register(&PropDef{ID: "C16", Rule: "projects of 1-4 processes with 1-11 replicas whose command, working directory, log location, description and probe command / host / path / port are templated on PC_REPLICA_NUM and on global and per-process variables; the real loader loads the same files 2-4 times per run while the simulator decides every map iteration order (random, sorted, reversed, rotated); all loads must be identical and every replica must carry its own rendering and the defaults; non-trivial = at least 2 loads succeeded; distinct = distinct scenario",
		Gen: func(seed uint64, idx int, tier string) *Scenario {
			sc, r := baseScenario("C16", seed)
			genC16(r, sc, tier)
			return sc
		},
		Check: checkC16,
		NonTrivial: func(sc *Scenario, res *RunResult, t *Truth) bool {
			n := 0
			for i := range t.Events {
				if t.Events[i].Kind == "load.snap" && t.Events[i].B == "" {
					n++
				}
			}
			return n >= 2
		},
	})
}

func init() {
	register(&PropDef{ID: "C07", Rule: "dependency graphs over 2-6 processes (forward edges with density 15-50 %, in 30 % of the scenarios 1-2 back edges or a self-dependency, in 10 % a dependency on an undefined process), disabled (closed under dependents) / foreground / replicated leaves, namespaces per connected component with a namespace selection, requested subsets with and without no-deps; the real loader, NewProjectRunner and Run() on the simulated kernel with seeded map iteration orders; load result, dependency order, launched commands and reported states compared with the graph; non-trivial = a configuration was rejected or at least one command launched; distinct = distinct scenario",
		Gen: func(seed uint64, idx int, tier string) *Scenario {
			sc, r := baseScenario("C07", seed)
			genC07(r, sc, tier)
			return sc
		},
		Check:        checkC07,
		JudgeLoadErr: true,
		NonTrivial: func(sc *Scenario, res *RunResult, t *Truth) bool {
			return res.LoadErr != "" || len(t.Insts) > 0
		},
	})
}

func init() {
	register(&PropDef{ID: "C17", Rule: "1-3 processes (some replicated, restarted or started again on request) whose command line and environment values contain $NAME, ${NAME}, $$NAME and $${NAME} over a pool of five variables defined - in seeded overlapping subsets - in the inherited environment of process-compose, a .env file, env_cmds (run on the simulated kernel: succeed, fail, hang), the global and the per-process environment, with and without disable_env_expansion; every exec on the simulated kernel is compared with the expected command line, environment (last duplicate wins) and working directory; non-trivial = at least one command launched; distinct = distinct scenario",
		Gen: func(seed uint64, idx int, tier string) *Scenario {
			sc, r := baseScenario("C17", seed)
			genC17(r, sc, tier)
			return sc
		},
		Check: checkC17,
		NonTrivial: func(sc *Scenario, res *RunResult, t *Truth) bool {
			return len(t.Insts) > 0
		},
	})
}
