package harness

import (
	"fmt"
)

// PropDef ties a property to its workload generator and its oracles.
type PropDef struct {
	ID    string
	Gen   func(seed uint64, idx int, tier string) *Scenario
	Check func(sc *Scenario, res *RunResult, t *Truth) []Violation
	// NonTrivial decides whether a run counts towards distinct_nontrivial.
	NonTrivial func(sc *Scenario, res *RunResult, t *Truth) bool
	Rule       string
	// Sweep: the scenario has a client named "sweep" whose first operation is injected
	// at every scheduler step of a baseline run.
	Sweep bool
}

var Props = map[string]*PropDef{}

func register(p *PropDef) { Props[p.ID] = p }

func defaultNonTrivial(sc *Scenario, res *RunResult, t *Truth) bool {
	return res.Out != nil && (res.Out.Preemptions > 0 || res.World.Stats.Kills > 0 || res.World.Stats.StartFail > 0)
}

// termination is owed for every process: it dies on the stop signal (after a lag) or a
// shutdown time-out is configured.
func lifecycleKnobs() *CoreKnobs {
	return &CoreKnobs{MinProcs: 1, MaxProcs: 6, EdgeP: 350, RestartP: 450, ExitOnP: 0, StartFailP: 40, FailExitP: 350,
		NeverReadyP: 250, SlowDeathP: 300, StopTimeoutP: 300, IgnoreTermP: 120, DisabledP: 50}
}

func baseScenario(prop string, seed uint64) (*Scenario, *R) {
	r := NewR(seed, 1)
	sc := &Scenario{Prop: prop, Seed: seed, Observe: true, RunForMs: 20000, EndShutdown: true, BoundMs: 3600 * 1000, QuietMs: 45000}
	return sc, r
}

// whenMs draws an instant that often coincides with the SUT's own whole-second timers.
func whenMs(r *R, max int) int {
	switch r.Intn(4) {
	case 0:
		return 1000 * r.Intn(max/1000+1)
	case 1:
		return 500 * r.Intn(max/500+1)
	case 2:
		return 0
	}
	return r.Intn(max + 1)
}

func init() {
	register(&PropDef{ID: "C03", Rule: "seeded projects (1-6 processes, random DAG/conditions/policies/faults); shutdown requested by API at a seeded instant, by a second concurrent API call, or by an exit_on_* trigger; plus injection-point sweeps of ShutDownProject over every scheduler step of a baseline run. non-trivial = at least one preemption at a shared object or one signal/fault fired; distinct = distinct trace hash",
		Gen: func(seed uint64, idx int, tier string) *Scenario {
			sc, r := baseScenario("C03", seed)
			k := lifecycleKnobs()
			arm := r.Intn(10)
			if arm < 2 {
				k.ExitOnP = 350
				sc.Arm = "trigger"
			} else if arm < 5 {
				sc.Arm = "sweep"
			} else {
				sc.Arm = "api"
			}
			GenCore(r, k, sc)
			sc.OrderedShutdown = r.P(300)
			switch sc.Arm {
			case "api":
				at := whenMs(r, 12000)
				sc.Clients = append(sc.Clients, Client{Name: "sd1", Ops: []Op{{AtMs: at, Op: "shutdown"}}})
				if r.P(300) {
					sc.Clients = append(sc.Clients, Client{Name: "sd2", Ops: []Op{{AtMs: at + Pick(r, 0, 0, 1, 500, 1000), Op: "shutdown"}}})
				}
				if r.P(250) && len(sc.Project.Procs) > 0 {
					p := sc.Project.Procs[r.Intn(len(sc.Project.Procs))]
					sc.Clients = append(sc.Clients, Client{Name: "st", Ops: []Op{{AtMs: whenMs(r, at+1000), Op: Pick(r, "stop", "restart", "start"), Arg: p.Name}}})
				}
			case "sweep":
				sc.Clients = append(sc.Clients, Client{Name: "sweep", Ops: []Op{{Op: "shutdown"}}})
				sc.RunForMs = 15000
			}
			return sc
		},
		Sweep: true,
		Check: func(sc *Scenario, res *RunResult, t *Truth) []Violation { return checkC03(sc, t) },
	})

	register(&PropDef{ID: "C04", Rule: "seeded finite projects (every process ends by itself, restarts bounded) with start failures, skips and exit_on_* carriers; Run() must return by itself with the right code; non-trivial = an exit_on_* trigger, a skip, a start failure or a restart occurred; distinct = distinct trace hash",
		Gen: func(seed uint64, idx int, tier string) *Scenario {
			sc, r := baseScenario("C04", seed)
			k := lifecycleKnobs()
			k.Finite = true
			k.MaxLifeMs = 6000
			k.NeverReadyP = 300
			k.IgnoreTermP = 60
			k.ExitOnP = Pick(r, 0, 250, 500)
			GenCore(r, k, sc)
			sc.Arm = "natural"
			sc.RunForMs = 180000
			return sc
		},
		Check: func(sc *Scenario, res *RunResult, t *Truth) []Violation { return checkC04(sc, t) },
		NonTrivial: func(sc *Scenario, res *RunResult, t *Truth) bool {
			for _, trs := range t.Trans {
				for _, tr := range trs {
					if tr.State == "Skipped" || tr.State == "Error" || tr.State == "Restarting" || tr.State == "Terminating" {
						return true
					}
				}
			}
			return false
		},
	})

	register(&PropDef{ID: "C02", Rule: "seeded projects whose processes carry every availability policy x max_restarts x backoff with seeded exit-code sequences; stop/shutdown requests injected at seeded instants (whole seconds included) and by injection-point sweep of StopProcess; non-trivial = at least one restart decision was taken (an exit of a process with a restart policy); distinct = distinct trace hash",
		Gen: func(seed uint64, idx int, tier string) *Scenario {
			sc, r := baseScenario("C02", seed)
			k := lifecycleKnobs()
			k.MaxProcs = 3
			k.RestartP = 900
			k.EdgeP = 150
			k.MaxLifeMs = 4000
			k.StartFailP = 0
			k.Conds = []string{"process_completed", "process_started", "process_completed_successfully"}
			GenCore(r, k, sc)
			sc.RunForMs = 40000
			subject := sc.Project.Procs[r.Intn(len(sc.Project.Procs))]
			switch r.Intn(4) {
			case 0:
				sc.Arm = "nostop"
			case 1:
				sc.Arm = "stop"
				sc.Clients = append(sc.Clients, Client{Name: "stopper", Ops: []Op{{AtMs: whenMs(r, 15000), Op: "stop", Arg: subject.Name}}})
				if r.P(300) {
					sc.Clients = append(sc.Clients, Client{Name: "stopper2", Ops: []Op{{AtMs: whenMs(r, 15000), Op: "stop", Arg: subject.Name}}})
				}
			case 2:
				sc.Arm = "sweep"
				sc.Clients = append(sc.Clients, Client{Name: "sweep", Ops: []Op{{Op: "stop", Arg: subject.Name}}})
				sc.RunForMs = 25000
			case 3:
				sc.Arm = "shutdown"
				sc.Clients = append(sc.Clients, Client{Name: "sd", Ops: []Op{{AtMs: whenMs(r, 15000), Op: "shutdown"}}})
			}
			return sc
		},
		Sweep: true,
		Check: func(sc *Scenario, res *RunResult, t *Truth) []Violation { return checkC02(sc, t) },
		NonTrivial: func(sc *Scenario, res *RunResult, t *Truth) bool {
			for rep, insts := range t.ByRep {
				if p := sc.specOfReplica(rep); p != nil && p.Restart != "" && p.Restart != "no" {
					for _, in := range insts {
						if in.ExitSeq >= 0 {
							return true
						}
					}
				}
			}
			return false
		},
	})

	register(&PropDef{ID: "C01", Rule: "seeded DAGs of 2-7 processes mixing the five depends_on conditions; dependencies exit with seeded codes, print their ready line early/late/never/split, pass their probe after seeded failures, fail to start, are restarted; clients start/restart processes at seeded instants; every launch is checked at its instant against ground truth; non-trivial = at least one launch of a process with dependencies was checked; distinct = distinct trace hash",
		Gen: func(seed uint64, idx int, tier string) *Scenario {
			sc, r := baseScenario("C01", seed)
			k := lifecycleKnobs()
			k.MinProcs, k.MaxProcs = 2, 7
			k.EdgeP = 500
			k.RestartP = 300
			k.MaxLifeMs = 5000
			GenCore(r, k, sc)
			sc.RunForMs = 30000
			if r.P(400) {
				var ops []Op
				for i := 0; i < r.Range(1, 3); i++ {
					p := sc.Project.Procs[r.Intn(len(sc.Project.Procs))]
					ops = append(ops, Op{AtMs: whenMs(r, 12000), Op: Pick(r, "start", "restart", "start"), Arg: p.Name})
				}
				sortOps(ops)
				sc.Clients = append(sc.Clients, Client{Name: "c1", Ops: ops})
				sc.Arm = "api"
			}
			return sc
		},
		Check: func(sc *Scenario, res *RunResult, t *Truth) []Violation { return checkC01(sc, t) },
		NonTrivial: func(sc *Scenario, res *RunResult, t *Truth) bool {
			for rep, insts := range t.ByRep {
				if p := sc.specOfReplica(rep); p != nil && len(p.DependsOn) > 0 && len(insts) > 0 {
					return true
				}
			}
			return false
		},
	})

	register(&PropDef{ID: "C05", Rule: "seeded finite projects with chains up to depth 4 in which dependencies fail in every way (non-zero exit after their restarts, start error, bad working directory, exit before the ready line or the first probe success, split ready line that never matches); non-trivial = at least one process had an unsatisfiable dependency; distinct = distinct trace hash",
		Gen: func(seed uint64, idx int, tier string) *Scenario {
			sc, r := baseScenario("C05", seed)
			k := lifecycleKnobs()
			k.Finite = true
			k.MinProcs, k.MaxProcs = 2, 6
			k.EdgeP = 550
			k.FailExitP = 500
			k.StartFailP = 120
			k.NeverReadyP = 450
			k.MaxLifeMs = 4000
			k.RestartP = 250
			k.Conds = []string{"process_completed_successfully", "process_completed_successfully", "process_healthy", "process_log_ready", "process_completed"}
			GenCore(r, k, sc)
			if r.P(300) {
				sc.Project.Procs[len(sc.Project.Procs)-1].ExitOnSkipped = true
			}
			sc.Arm = "natural"
			sc.RunForMs = 120000
			return sc
		},
		Check: func(sc *Scenario, res *RunResult, t *Truth) []Violation { return checkC05(sc, t) },
		NonTrivial: func(sc *Scenario, res *RunResult, t *Truth) bool {
			for _, trs := range t.Trans {
				for _, tr := range trs {
					if tr.State == "Skipped" {
						return true
					}
				}
			}
			return false
		},
	})

	register(&PropDef{ID: "C09", Rule: "seeded projects with the full fault mix and a polling observer; every status transition (synchronous hook) is checked against the legal relation and the reported state is compared with the simulated process table at every stable point; non-trivial = at least 3 distinct statuses were reported; distinct = distinct trace hash",
		Gen: func(seed uint64, idx int, tier string) *Scenario {
			sc, r := baseScenario("C09", seed)
			k := lifecycleKnobs()
			k.StartFailP = 100
			if r.P(500) {
				k.Finite = true
				sc.Arm = "natural"
				sc.RunForMs = 120000
			}
			GenCore(r, k, sc)
			if sc.Arm == "" && r.P(600) {
				var ops []Op
				for i := 0; i < r.Range(1, 4); i++ {
					p := sc.Project.Procs[r.Intn(len(sc.Project.Procs))]
					ops = append(ops, Op{AtMs: whenMs(r, 15000), Op: Pick(r, "stop", "start", "restart", "stop"), Arg: p.Name})
				}
				sortOps(ops)
				sc.Clients = append(sc.Clients, Client{Name: "c1", Ops: ops})
				sc.Arm = "quiesce"
			}
			return sc
		},
		Check: func(sc *Scenario, res *RunResult, t *Truth) []Violation { return checkC09(sc, t) },
		NonTrivial: func(sc *Scenario, res *RunResult, t *Truth) bool {
			seen := map[string]bool{}
			for _, trs := range t.Trans {
				for _, tr := range trs {
					seen[tr.State] = true
				}
			}
			return len(seen) >= 3
		},
	})

	register(&PropDef{ID: "C12", Rule: "seeded DAGs (chains, fan-in, fan-out, diamonds) of long-running processes with seeded termination lags, ordered shutdown requested at a seeded instant (subsets completed/pending/running); non-trivial = at least one dependency with a live dependent was signalled; distinct = distinct trace hash",
		Gen: func(seed uint64, idx int, tier string) *Scenario {
			sc, r := baseScenario("C12", seed)
			k := lifecycleKnobs()
			k.MinProcs, k.MaxProcs = 2, 7
			k.EdgeP = 450
			k.SlowDeathP = 700
			k.RestartP = 150
			k.Conds = []string{"process_started", "process_started", "process_log_ready", "process_completed"}
			GenCore(r, k, sc)
			sc.OrderedShutdown = true
			sc.RunForMs = 40000
			sc.Clients = append(sc.Clients, Client{Name: "sd", Ops: []Op{{AtMs: whenMs(r, 10000), Op: "shutdown"}}})
			return sc
		},
		Check: func(sc *Scenario, res *RunResult, t *Truth) []Violation { return checkC12(sc, t) },
		NonTrivial: func(sc *Scenario, res *RunResult, t *Truth) bool {
			sd := t.firstShutdownSeq(sc)
			if sd < 0 {
				return false
			}
			live := map[string]bool{}
			for _, in := range t.LiveAt(sd) {
				live[in.Replica] = true
			}
			for _, p := range sc.Project.Procs {
				if live[p.Name] {
					for d := range p.DependsOn {
						if live[d] {
							return true
						}
					}
				}
			}
			return false
		},
	})
}

func init() {
	register(&PropDef{ID: "C08", Rule: "1-3 processes (fast exit, slow reaction to the stop signal, restarting, pending on a dependency) and 2-4 concurrent client tasks each issuing 3-8 seeded start/stop/restart requests, including unknown names and duplicates at the same instant; instance-overlap oracle at every launch, outcome-vs-activity oracle per request; non-trivial = at least two requests overlapped or landed at the same fake instant; distinct = distinct trace hash",
		Gen: func(seed uint64, idx int, tier string) *Scenario {
			sc, r := baseScenario("C08", seed)
			k := lifecycleKnobs()
			k.MinProcs, k.MaxProcs = 1, 3
			k.RestartP = 500
			k.EdgeP = 300
			k.SlowDeathP = 500
			k.StartFailP = 30
			k.DisabledP = 100
			k.MaxLifeMs = 6000
			k.Conds = []string{"process_completed", "process_started", "process_log_ready", "process_completed_successfully"}
			GenCore(r, k, sc)
			sc.Arm = "quiesce"
			sc.RunForMs = 25000
			nc := r.Range(2, 4)
			for c := 0; c < nc; c++ {
				var ops []Op
				for i := 0; i < r.Range(3, 8); i++ {
					name := sc.Project.Procs[r.Intn(len(sc.Project.Procs))].Name
					if r.P(80) {
						name = Pick(r, "nosuch", "p9", "")
					}
					ops = append(ops, Op{AtMs: whenMs(r, 14000), Op: Pick(r, "start", "stop", "restart", "start", "stop"), Arg: name})
				}
				sortOps(ops)
				sc.Clients = append(sc.Clients, Client{Name: fmt.Sprintf("c%d", c), Ops: ops})
			}
			return sc
		},
		Check: func(sc *Scenario, res *RunResult, t *Truth) []Violation { return checkC08(sc, t) },
		NonTrivial: func(sc *Scenario, res *RunResult, t *Truth) bool {
			for i, a := range t.Calls {
				for _, b := range t.Calls[i+1:] {
					if a.Client != b.Client && (b.CallSeq < a.RetSeq || a.CallT == b.CallT) {
						return true
					}
				}
			}
			return false
		},
	})
}

func sortOps(ops []Op) {
	for i := 1; i < len(ops); i++ {
		for j := i; j > 0 && ops[j].AtMs < ops[j-1].AtMs; j-- {
			ops[j], ops[j-1] = ops[j-1], ops[j]
		}
	}
}

var _ = fmt.Sprint
