package harness

import (
	"encoding/json"
	"testing"
	"time"

	"verifrt/simsync"
)

func cloneScenario(sc *Scenario) *Scenario {
	b, _ := json.Marshal(sc)
	var c Scenario
	_ = json.Unmarshal(b, &c)
	return &c
}

func removeProc(sc *Scenario, name string) {
	var ps []*ProcSpec
	for _, p := range sc.Project.Procs {
		if p.Name == name {
			continue
		}
		delete(p.DependsOn, name)
		ps = append(ps, p)
	}
	sc.Project.Procs = ps
	for ci := range sc.Clients {
		var ops []Op
		for _, op := range sc.Clients[ci].Ops {
			if op.Arg == name {
				continue
			}
			ops = append(ops, op)
		}
		sc.Clients[ci].Ops = ops
	}
}

// minimise shrinks the scenario (and thereby the schedule) while the same violation class
// persists. Every candidate is a full deterministic re-run.
func minimise(t *testing.T, pd *PropDef, sc *Scenario, tape []int32, v Violation, budget time.Duration) (*Scenario, []int32, *RunResult, Violation) {
	deadline := time.Now().Add(budget)
	if sc.Project == nil {
		res, _, _, _ := runAndCheck(t, pd, sc, tape)
		return sc, tape, res, v
	}
	best := cloneScenario(sc)
	same := func(c *Scenario) (*RunResult, *Violation) {
		res, _, own, _ := runAndCheck(t, pd, c, nil)
		if res.Out == nil || res.Out.Trouble != "" {
			return nil, nil
		}
		for i := range own {
			if own[i].Class == v.Class && own[i].Prop == v.Prop {
				return res, &own[i]
			}
		}
		return nil, nil
	}
	bestRes, bv := same(best)
	if bestRes == nil {
		// not reproducible without the tape?! keep the original
		res, _, _, _ := runAndCheck(t, pd, sc, tape)
		return sc, tape, res, v
	}
	try := func(mut func(c *Scenario) bool) bool {
		if time.Now().After(deadline) {
			return false
		}
		c := cloneScenario(best)
		if !mut(c) {
			return false
		}
		if pd.Valid != nil && !pd.Valid(c) {
			return false // the simplification leaves the space of scenarios the property is checked on
		}
		if r, nv := same(c); r != nil {
			best, bestRes, bv = c, r, nv
			return true
		}
		return false
	}
	progress := true
	for progress && time.Now().Before(deadline) {
		progress = false
		// simpler schedule first
		if best.Strategy.StallPermille != 0 && try(func(c *Scenario) bool { c.Strategy.StallPermille = 0; return true }) {
			progress = true
		}
		if (best.Strategy.Kind != simsync.StratSticky || best.Strategy.SwitchPermille != 0) && try(func(c *Scenario) bool {
			c.Strategy.Kind, c.Strategy.SwitchPermille = simsync.StratSticky, 0
			return true
		}) {
			progress = true
		}
		if best.IterMode != 1 && try(func(c *Scenario) bool { c.IterMode = 1; return true }) {
			progress = true
		}
		// drop processes
		for i := len(best.Project.Procs) - 1; i >= 0; i-- {
			if i >= len(best.Project.Procs) {
				continue
			}
			name := best.Project.Procs[i].Name
			if try(func(c *Scenario) bool { removeProc(c, name); return len(c.Project.Procs) > 0 }) {
				progress = true
			}
		}
		// drop dependency edges
		for _, p := range best.Project.Procs {
			for _, d := range sortedKeys(p.DependsOn) {
				pn := p.Name
				if try(func(c *Scenario) bool { delete(c.Project.Proc(pn).DependsOn, d); return true }) {
					progress = true
				}
			}
		}
		// drop client operations and clients
		for ci := len(best.Clients) - 1; ci >= 0; ci-- {
			if ci >= len(best.Clients) {
				continue
			}
			if best.Clients[ci].Name != "sweep" && try(func(c *Scenario) bool {
				c.Clients = append(c.Clients[:ci], c.Clients[ci+1:]...)
				return true
			}) {
				progress = true
				continue
			}
			for oi := len(best.Clients[ci].Ops) - 1; oi >= 0; oi-- {
				if len(best.Clients[ci].Ops) <= 1 {
					break
				}
				if try(func(c *Scenario) bool {
					ops := c.Clients[ci].Ops
					if oi >= len(ops) {
						return false
					}
					c.Clients[ci].Ops = append(ops[:oi], ops[oi+1:]...)
					return true
				}) {
					progress = true
				}
			}
		}
		// simplify process settings
		for _, p := range best.Project.Procs {
			pn := p.Name
			if p.Restart != "" && try(func(c *Scenario) bool { q := c.Project.Proc(pn); q.Restart, q.Backoff, q.MaxRestarts = "", nil, 0; return true }) {
				progress = true
			}
			if p.StopTimeout != nil && try(func(c *Scenario) bool { c.Project.Proc(pn).StopTimeout = nil; return true }) {
				progress = true
			}
			tok := p.Token
			if ts := best.Scripts[tok]; ts != nil && len(ts.Launches) > 1 && try(func(c *Scenario) bool {
				if c.Scripts[tok] == nil {
					return false
				}
				c.Scripts[tok].Launches = c.Scripts[tok].Launches[:1]
				return true
			}) {
				progress = true
			}
		}
	}
	// then the schedule: blocks of choices are replaced by 0 ("the ready task with the lowest
	// id", "the first ready select case", "keep the order") while the same violation class
	// persists; what remains non-zero in the tape is what the failure needs
	tapeDeadline := time.Now().Add(6 * time.Second)
	tape = append([]int32(nil), bestRes.Out.Tape...)
	for block := len(tape) / 2; block >= 4 && time.Now().Before(tapeDeadline); block /= 2 {
		for i := 0; i+block <= len(tape) && time.Now().Before(tapeDeadline); i += block {
			zero := true
			for _, v := range tape[i : i+block] {
				if v != 0 {
					zero = false
					break
				}
			}
			if zero {
				continue
			}
			cand := append([]int32(nil), tape...)
			for j := i; j < i+block; j++ {
				cand[j] = 0
			}
			res, _, own, _ := runAndCheck(t, pd, best, cand)
			if res.Out == nil || res.Out.Trouble != "" {
				continue
			}
			for k := range own {
				if own[k].Class == v.Class && own[k].Prop == v.Prop {
					tape, bestRes, bv = append([]int32(nil), res.Out.Tape...), res, &own[k]
					break
				}
			}
		}
	}
	return best, bestRes.Out.Tape, bestRes, *bv
}
