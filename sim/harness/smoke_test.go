package harness

import (
	"fmt"
	"os"
	"testing"

	"verifrt/simos"
	"verifrt/simsync"
)

func smokeScenario(seed uint64) *Scenario {
	return &Scenario{
		Prop: "smoke", Seed: seed,
		Project: &ProjectSpec{Procs: []*ProcSpec{
			{Name: "db", Token: "db", ReadyLine: "ready"},
			{Name: "web", Token: "web", DependsOn: map[string]string{"db": "process_log_ready"}, Restart: "always", Backoff: iptr(2), MaxRestarts: 2},
			{Name: "job", Token: "job", DependsOn: map[string]string{"web": "process_started"}},
		}},
		Scripts: map[string]*TokenScript{
			"db":  {Launches: []simos.Script{{LifeMs: -1, TermLagMs: 300, Out: []simos.OutChunk{{AtMs: 500, Stream: 1, Data: "starting\n"}, {AtMs: 1500, Stream: 1, Data: "db ready\n"}}}}},
			"web": {Launches: []simos.Script{{LifeMs: 3000, Exit: 1, Out: []simos.OutChunk{{AtMs: 100, Stream: 2, Data: "web up\n"}}}}},
			"job": {Launches: []simos.Script{{LifeMs: 700, Exit: 0}}},
		},
		Clients:     []Client{{Name: "c1", Ops: []Op{{AtMs: 4000, Op: "log", Arg: "db", N: 100, M: 0}, {AtMs: 4000, Op: "log", Arg: "db", N: 1 << 20, M: 0}, {AtMs: 9000, Op: "stop", Arg: "web"}}}},
		RunForMs:    30000,
		EndShutdown: true, BoundMs: 60000,
		Observe:  true,
		Strategy: simsync.Strategy{Kind: int(seed % 3), SwitchPermille: 300, PCTDepth: 2, PCTLen: 200},
	}
}

func TestSmoke(t *testing.T) {
	res := RunScenario(t, smokeScenario(1), nil)
	if os.Getenv("VERIF_VERBOSE") != "" {
		for i := range res.Log.Events {
			fmt.Println(res.Log.Events[i].String())
		}
	}
	fmt.Printf("steps=%d decisions=%d wall=%.1fms hash=%x loadErr=%q bubbleErr=%q trouble=%q panics=%d\n", res.Out.Steps, res.Out.Decisions, res.WallMs, res.Hash, res.LoadErr, res.BubbleErr, res.Out.Trouble, len(res.Out.Panics))
	fmt.Printf("FINAL LOGS: %v\n", res.FinalLogs)
	for _, p := range res.Out.Panics {
		fmt.Println(p.Task, p.Value, p.Stack)
	}
	res2 := RunScenario(t, smokeScenario(1), nil)
	if res2.Hash != res.Hash {
		t.Fatalf("nondeterministic: %x vs %x", res.Hash, res2.Hash)
	}
}
