package harness

import (
	"fmt"
	"net/url"
	"strings"

	"verifrt/simos"
)

// ---- C19: REST API and bundled client ----

// restUnsupported: operations the bundled client cannot perform without a socket
var restUnsupported = map[string]bool{"log": true, "subscribe": true, "unsubscribe": true, "loglen": true}

func genC19(r *R, seed uint64, idx int, tier string) *Scenario {
	var sc *Scenario
	mode := Pick(r, "restscale", "restupdate", "restlife", "restlife", "restnames", "restslow")
	switch mode {
	case "restslow":
		// operations that take their time on the server (a restart with a long back-off, a
		// stop that has to wait for its time-out): the client waits for the answer
		sc, _ = baseScenario("C19", seed)
		spec := &ProjectSpec{}
		sc.Project = spec
		sc.Scripts = map[string]*TokenScript{}
		spec.Procs = append(spec.Procs,
			&ProcSpec{Name: "sl", Token: "sl", Restart: "on_failure", Backoff: iptr(Pick(r, 6, 7, 9))},
			&ProcSpec{Name: "ig", Token: "ig", StopTimeout: iptr(Pick(r, 6, 8))})
		life := simos.Script{LifeMs: -1, TermLagMs: 10}
		sc.Scripts["sl"] = &TokenScript{Launches: []simos.Script{life, life, life}}
		stub := simos.Script{LifeMs: -1, Ignore: []int{15}}
		sc.Scripts["ig"] = &TokenScript{Launches: []simos.Script{stub, stub}}
		sc.Clients = append(sc.Clients, Client{Name: "c", Ops: []Op{{AtMs: 1000, Op: "restart", Arg: "sl"}, {AtMs: 12000, Op: "stop", Arg: "ig"}, {AtMs: 21000, Op: "start", Arg: "ig"}}})
		sc.Strategy = genStrategy(r)
		sc.Strategy.StallPermille = 0
		sc.RunForMs = 26000
		sc.QuietMs = 10000
		sc.Arm = "slow"
	case "restnames":
		// process names that need escaping in a URL path: the client and the router must agree
		sc, _ = baseScenario("C19", seed)
		odd := Pick(r, "my worker", "a+b", "50%", "q?x", "h#1", "w%41", "x&y=1", "sp ace+plus")
		spec := &ProjectSpec{}
		sc.Project = spec
		sc.Scripts = map[string]*TokenScript{}
		spec.Procs = append(spec.Procs, &ProcSpec{Name: odd, Token: "odd"}, &ProcSpec{Name: "b0", Token: "b0"})
		sc.Scripts["odd"] = &TokenScript{Launches: []simos.Script{{LifeMs: -1, TermLagMs: 10, Out: []simos.OutChunk{{AtMs: 1, Stream: 1, Data: "hello\n"}}}}}
		sc.Scripts["b0"] = &TokenScript{Launches: []simos.Script{{LifeMs: -1, TermLagMs: 10}}}
		var ops []Op
		at := 500
		for _, o := range []string{"stop", "start", "restart", "stop", "start"} {
			if r.P(600) {
				ops = append(ops, Op{AtMs: at, Op: o, Arg: odd})
				at += Pick(r, 500, 1000)
			}
		}
		sc.Clients = append(sc.Clients, Client{Name: "c", Ops: ops})
		sc.Strategy = genStrategy(r)
		sc.Strategy.StallPermille = 0
		sc.RunForMs = 8000
		sc.QuietMs = 3000
		sc.Arm = "names"
	case "restscale":
		sc, _ = baseScenario("C19", seed)
		genC13(NewR(seed, 2), sc, tier)
	case "restupdate":
		sc, _ = baseScenario("C19", seed)
		genC14(NewR(seed, 2), sc, tier)
	default:
		sc = Props["C08"].Gen(seed, idx, tier)
		sc.Prop = "C19"
	}
	sc.Mode2 = mode
	sc.Rest = true
	last := 0
	for ci := range sc.Clients {
		for oi := range sc.Clients[ci].Ops {
			op := &sc.Clients[ci].Ops[oi]
			if !restUnsupported[op.Op] && sc.Clients[ci].Name != "sweep" {
				op.Rest = true
			}
			if op.AtMs > last {
				last = op.AtMs
			}
		}
	}
	if last < 3000 {
		last = 3000
	}
	var names []string
	for _, p := range sc.Project.Procs {
		names = append(names, ReplicaNames(p.Name, p.Replicas)...)
	}
	valid := url.PathEscape(names[r.Intn(len(names))])
	// reads compared with direct calls
	var cops []Op
	for x := 400; x < last+500; x += Pick(r, 300, 700, 1100) {
		kind := Pick(r, "states", "names", "projstate", "hostname", "state", "state", "info", "ports")
		arg := ""
		if kind == "state" || kind == "info" || kind == "ports" {
			arg = names[r.Intn(len(names))]
			if r.P(200) {
				arg = Pick(r, "nosuch", "", "a/b", "s-99")
			}
		}
		cops = append(cops, Op{AtMs: x, Op: "cmp", Arg: arg, Args: []string{kind}})
	}
	sc.Clients = append(sc.Clients, Client{Name: "cmp", Ops: cops})
	// invalid requests
	bad := [][3]string{
		{"GET", "/process/nosuch", ""}, {"GET", "/process/info/nosuch", ""}, {"GET", "/process/ports/nosuch", ""},
		{"PATCH", "/process/stop/nosuch", ""}, {"POST", "/process/start/nosuch", ""}, {"POST", "/process/restart/nosuch", ""},
		{"PATCH", "/process/scale/nosuch/2", ""}, {"GET", "/process/logs/nosuch/0/0", ""},
		{"GET", "/process/logs/" + valid + "/abc/1", ""}, {"GET", "/process/logs/" + valid + "/1/xyz", ""},
		{"GET", "/process/logs/" + valid + "/1/99999999999999999999", ""}, {"GET", "/process/logs/" + valid + "/1e3/2", ""},
		{"PATCH", "/process/scale/" + valid + "/abc", ""}, {"PATCH", "/process/scale/" + valid + "/0", ""}, {"PATCH", "/process/scale/" + valid + "/-3", ""},
		{"PATCH", "/process/scale/" + valid + "/99999999999999999999", ""}, {"PATCH", "/process/scale/" + valid + "/2.5", ""},
		{"POST", "/project", "{"}, {"POST", "/project", "[]"}, {"POST", "/project", `{"processes": 5}`}, {"POST", "/project", `"x"`},
		{"POST", "/process", "{"}, {"POST", "/process", `{"name": 5}`}, {"POST", "/process", `{"name": "nosuch", "replica_name": "nosuch", "command": "simproc nosuch"}`}, {"POST", "/process", "[1]"}, {"POST", "/process", "null"}, {"POST", "/process", " null "},
		{"PATCH", "/processes/stop", "{"}, {"PATCH", "/processes/stop", `[1,2]`}, {"PATCH", "/processes/stop", ``}, {"PATCH", "/processes/stop", `{"a":"b"}`},
		{"GET", "/process/logs/" + valid + "/1", ""}, {"DELETE", "/process/" + valid, ""}, {"GET", "/nosuchroute", ""},
	}
	var fops []Op
	nf := r.Range(3, 10)
	for i := 0; i < nf; i++ {
		b := bad[r.Intn(len(bad))]
		op := Op{AtMs: 300 + r.Intn(last), Op: "http", Arg: b[0] + " " + b[1]}
		if b[2] != "" || strings.HasSuffix(b[1], "/processes/stop") {
			op.Args = []string{b[2]}
		}
		fops = append(fops, op)
	}
	sortOps(fops)
	fops = append(fops, Op{AtMs: last + 600, Op: "http", Arg: "GET /live"})
	sc.Clients = append(sc.Clients, Client{Name: "fuzz", Ops: fops})
	// valid requests at the edges of their parameters' ranges: whatever the answer, never 5xx
	var eops []Op
	for i := r.Range(0, 4); i > 0; i-- {
		path := fmt.Sprintf("/process/logs/%s/%s/%s", valid, Pick(r, "0", "1", "2", "5", "-1", "-3", "9223372036854775807"),
			Pick(r, "9223372036854775807", "9223372036854775806", "9223372036854775800", "0", "-1", "-9223372036854775808"))
		eops = append(eops, Op{AtMs: 300 + r.Intn(last), Op: "http", Arg: "GET " + path})
	}
	sortOps(eops)
	if len(eops) > 0 {
		sc.Clients = append(sc.Clients, Client{Name: "edge", Ops: eops})
	}
	if sc.RunForMs < last+1500 {
		sc.RunForMs = last + 1500
	}
	return sc
}

func checkC19(sc *Scenario, res *RunResult, t *Truth) []Violation {
	var vs []Violation
	add := func(class, disc, msg string, seq int) {
		vs = append(vs, Violation{"C19", class, disc, msg, seq})
	}
	// the operations went through REST: the oracles of the direct calls must hold unchanged
	var sub []Violation
	switch sc.Mode2 {
	case "restslow":
		// the requests are valid and the processes are up: they succeed, however long they take
		for _, c := range t.Calls {
			if c.Client == "c" && c.RetSeq >= 0 && c.Err != "" {
				add("rest-outcome-differs", c.Op, fmt.Sprintf("%s through the REST client failed with %q after %v; the same request on the runner succeeds", c.Desc, c.Err, c.RetT-c.CallT), c.RetSeq)
			}
		}
	case "restnames":
		// a request about an existing process is never answered "no such process"
		for _, c := range t.Calls {
			if c.Client == "c" && c.RetSeq >= 0 && (strings.Contains(c.Err, "no such") || strings.Contains(c.Err, "not found") || strings.Contains(c.Err, "404")) {
				add("rest-outcome-differs", c.Op, fmt.Sprintf("%s through the REST client failed with %q although the process exists", c.Desc, c.Err), c.RetSeq)
			}
		}
	case "restscale":
		sub = checkC13(sc, res, t)
	case "restupdate":
		sub = checkC14(sc, res, t)
	default:
		sub = checkC08(sc, t)
	}
	for _, v := range sub {
		add("rest-"+v.Class, v.Disc, "through the REST API and the bundled client: "+v.Msg, v.Seq)
	}
	for _, c := range t.Calls {
		switch d := c.Data.(type) {
		case *HTTPResult:
			if c.Client == "edge" && d != nil {
				if d.Panic != "" || d.Status >= 500 {
					add("server-error-5xx", "edge", fmt.Sprintf("%s was answered %d %s %s", c.Desc, d.Status, d.Panic, clipStr(d.Body, 200)), c.RetSeq)
				}
				continue
			}
			if c.Client != "fuzz" || d == nil {
				continue
			}
			route := c.Desc
			if i := strings.IndexByte(route, ' '); i > 0 {
				if j := strings.Index(route[i+1:], "/"); j >= 0 {
					k := strings.IndexAny(route[i+2+j:], "/)")
					if k >= 0 {
						route = route[:i+2+j+k]
					}
				}
			}
			switch {
			case d.Panic != "":
				add("request-panicked", route, fmt.Sprintf("%s: the server panicked: %s", c.Desc, d.Panic), c.RetSeq)
			case d.Status >= 500:
				add("server-error-5xx", route, fmt.Sprintf("%s was answered %d: %s", c.Desc, d.Status, d.Body), c.RetSeq)
			case strings.HasSuffix(c.Desc, "GET /live)"):
				if d.Status != 200 {
					add("server-stopped-serving", "", fmt.Sprintf("GET /live was answered %d after the invalid requests", d.Status), c.RetSeq)
				}
			case d.Status < 400:
				add("invalid-request-not-4xx", route, fmt.Sprintf("%s is invalid but was answered %d: %s", c.Desc, d.Status, d.Body), c.RetSeq)
			case strings.TrimSpace(d.Body) == "":
				add("no-error-message", route, fmt.Sprintf("%s was answered %d without an error message", c.Desc, d.Status), c.RetSeq)
			}
		case *CmpResult:
			if d == nil || d.Direct1 != d.Direct2 || strings.HasPrefix(d.Direct2, "<err changed>") {
				continue // the runner's own answer changed meanwhile: nothing to compare with
			}
			if (d.DirectErr == "") != (d.RestErr == "") {
				add("rest-outcome-differs", d.Kind, fmt.Sprintf("%s: the runner answers error=%q, the REST client error=%q", c.Desc, d.DirectErr, d.RestErr), c.RetSeq)
			} else if d.DirectErr == "" && d.Rest != d.Direct1 {
				add("rest-read-differs", d.Kind, fmt.Sprintf("%s: the runner answers %s; the REST client %s", c.Desc, clipStr(d.Direct1, 300), clipStr(d.Rest, 300)), c.RetSeq)
			}
		}
	}
	return vs
}
