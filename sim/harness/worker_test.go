package harness

import (
	"encoding/json"
	"fmt"
	"os"
	"runtime"
	"runtime/pprof"
	"sort"
	"strconv"
	"strings"
	"testing"
	"time"

	"verifrt/simsync"
)

// Replay is the replay file format (DESIGN.md appendix A).
type Replay struct {
	Format   int        `json:"format"`
	Property string     `json:"property"`
	Seed     uint64     `json:"seed"`
	Tree     string     `json:"tree"`
	Expect   ReplayWant `json:"expect"`
	Scenario *Scenario  `json:"scenario"`
	Tape     []int32    `json:"tape"`
	Trace    []string   `json:"trace_tail,omitempty"`
}

type ReplayWant struct {
	Class     string `json:"class"`
	Disc      string `json:"discriminator"`
	Msg       string `json:"message"`
	TraceHash string `json:"trace_hash"`
}

type FoundViolation struct {
	Violation
	Seed     uint64 `json:"seed"`
	Idx      int    `json:"idx"`
	Replay   string `json:"replay"`
	Others   int    `json:"others"`
	Minimised bool  `json:"minimised"`
}

type WorkerOut struct {
	Prop        string            `json:"prop"`
	Runs        int               `json:"runs"`
	Hashes      []string          `json:"hashes"`       // trace hashes of non-trivial runs
	Violations  []FoundViolation  `json:"violations"`
	Trouble     []string          `json:"trouble"`
	Stats       map[string]int64  `json:"stats"`
	Samples     []json.RawMessage `json:"samples"`
	DetChecked  int               `json:"det_checked"`
	DetDiverged int               `json:"det_diverged"`
	WallS       float64           `json:"wall_s"`
	SimMs       int64             `json:"sim_ms"`
	CrossObs    map[string]int    `json:"cross_obs"`
	IdxHashes   map[string]string `json:"idx_hashes,omitempty"`
	Rule        string            `json:"rule"`
	// NextIdx: first index this worker did not do; smaller than from+count when it stopped
	// early because its memory grew past VERIF_MEM_MB (runs that end with parked tasks leak
	// them); the driver hands the rest to a fresh process
	NextIdx int `json:"next_idx"`
}

func envInt(k string, d int) int {
	if v, err := strconv.Atoi(os.Getenv(k)); err == nil {
		return v
	}
	return d
}

func propSeed(base uint64, prop string, idx int) uint64 {
	h := uint64(1469598103934665603)
	for _, c := range prop {
		h = (h ^ uint64(c)) * 1099511628211
	}
	return simsync.Mix(simsync.Mix(base, h), uint64(idx)+1)
}

// runAndCheck runs one scenario and evaluates the property's oracles plus the always-armed
// cross-property ones.
func runAndCheck(t *testing.T, pd *PropDef, sc *Scenario, tape []int32) (*RunResult, *Truth, []Violation, []Violation) {
	res := RunScenario(t, sc, tape)
	if res.Out == nil || res.Log == nil {
		return res, nil, nil, nil
	}
	tr := BuildTruth(sc, res.Log)
	var own, cross []Violation
	if res.Out.StepLimit && !pd.JudgeCutOff {
		// the run was cut off by the step budget: nothing is judged (counted in evidence)
		return res, tr, nil, nil
	}
	if res.LoadErr == "" || pd.JudgeLoadErr {
		own = pd.Check(sc, res, tr)
	}
	// cross-property observations: panics, instance overlap
	for _, v := range checkGeneric(sc, res, tr) {
		if v.Prop == pd.ID {
			own = append(own, v)
		} else {
			cross = append(cross, v)
		}
	}
	return res, tr, own, cross
}

func TestWorker(t *testing.T) {
	prop := os.Getenv("VERIF_PROP")
	if prop == "" {
		t.Skip("VERIF_PROP not set")
	}
	pd := Props[prop]
	if pd == nil {
		fmt.Printf("TROUBLE unknown property %s\n", prop)
		os.Exit(2)
	}
	base := uint64(envInt("VERIF_SEED", 1))
	from, count := envInt("VERIF_FROM", 0), envInt("VERIF_COUNT", 10)
	tier := os.Getenv("VERIF_TIER")
	outPath := os.Getenv("VERIF_OUT")
	replayDir := os.Getenv("VERIF_REPLAY_DIR")
	detEvery := envInt("VERIF_DET_EVERY", 20)
	sweepStride := envInt("VERIF_SWEEP_STRIDE", 1)
	sweepMax := envInt("VERIF_SWEEP_MAX", 400)
	deadline := time.Now().Add(time.Duration(envInt("VERIF_BUDGET_S", 3600)) * time.Second)
	out := &WorkerOut{Prop: prop, Stats: map[string]int64{}, CrossObs: map[string]int{}, Rule: pd.Rule}
	idxHashes := os.Getenv("VERIF_IDX_HASHES") != ""
	if idxHashes {
		out.IdxHashes = map[string]string{}
	}
	t0 := time.Now()
	seenV := map[string]bool{}
	one := func(sc *Scenario, idx int) {
		re0 := simsync.RaceErrors()
		if simsync.RaceEnabled {
			fmt.Fprintf(os.Stderr, "RACE-RUN-BEGIN idx=%d seed=%d\n", idx, sc.Seed)
		}
		res, tr, own, cross := runAndCheck(t, pd, sc, nil)
		traceIt := false
		if arm := os.Getenv("VERIF_TRACE_ARM"); arm != "" && res.Log != nil {
			traceIt = sc.Arm == arm
			for _, c := range sc.Clients {
				if strings.HasPrefix(arm, "client:") && strings.HasPrefix(c.Name, arm[7:]) {
					traceIt = true
				}
			}
		}
		if traceIt {
			// debugging aid: print the first run of an arm and stop
			b, _ := json.Marshal(sc)
			fmt.Println("SCENARIO", string(b))
			for i := range res.Log.Events {
				if res.Log.Events[i].Kind != "obs.snap" {
					fmt.Println(res.Log.Events[i].String())
				}
			}
			for _, v := range own {
				fmt.Println("VIOL", v.Class, v.Disc, v.Msg)
			}
			os.Exit(0)
		}
		if simsync.RaceEnabled {
			n := simsync.RaceErrors() - re0
			fmt.Fprintf(os.Stderr, "RACE-RUN-END idx=%d seed=%d reports=%d\n", idx, sc.Seed, n)
			if n > 0 && replayDir != "" && res.Out != nil {
				// keep the schedule of every run that produced race reports: the driver
				// attributes the reports to runs and picks the replay file it needs
				writeReplay(replayDir+"/race", pd, sc, res.Out.Tape, res, Violation{Prop: pd.ID, Class: "data-race"})
				out.Stats["runs_with_race_reports"]++
			}
		}
		out.Runs++
		if res.Out == nil {
			out.Trouble = append(out.Trouble, fmt.Sprintf("seed %d: no outcome: %s", sc.Seed, res.BubbleErr))
			return
		}
		if res.Out.Trouble != "" {
			out.Trouble = append(out.Trouble, fmt.Sprintf("seed %d: %s", sc.Seed, res.Out.Trouble))
			return
		}
		accumulate(out, sc, res, tr)
		if idxHashes {
			out.IdxHashes[fmt.Sprintf("%d/%d", idx, sc.SweepStep)] = fmt.Sprintf("%016x", res.Hash)
		}
		nt := defaultNonTrivial
		if pd.NonTrivial != nil {
			nt = pd.NonTrivial
		}
		if res.LoadErr == "" && nt(sc, res, tr) {
			out.Hashes = append(out.Hashes, fmt.Sprintf("%016x", res.Hash))
		}
		for _, v := range cross {
			out.CrossObs[v.Key()]++
		}
		if len(out.Samples) < 2 && res.LoadErr == "" && len(own) == 0 {
			out.Samples = append(out.Samples, sampleOf(sc, res, tr))
		}
		if len(own) > 0 {
			v := own[0]
			if seenV[v.Key()] {
				for i := range out.Violations {
					if out.Violations[i].Key() == v.Key() {
						out.Violations[i].Others++
					}
				}
			} else {
				seenV[v.Key()] = true
				fv := FoundViolation{Violation: v, Seed: sc.Seed, Idx: idx}
				if replayDir != "" {
					if os.Getenv("VERIF_NOMIN") != "" { // debugging aid: keep the scenario as generated
						fv.Replay = writeReplay(replayDir, pd, sc, res.Out.Tape, res, v)
					} else {
						msc, mtape, mres, mv := minimise(t, pd, sc, res.Out.Tape, v, 15*time.Second)
						fv.Violation = mv
						fv.Minimised = true
						fv.Replay = writeReplay(replayDir, pd, msc, mtape, mres, mv)
					}
				}
				out.Violations = append(out.Violations, fv)
			}
		}
		// determinism self-test on a sample
		if detEvery > 0 && idx%detEvery == 0 {
			res2 := RunScenario(t, sc, nil)
			out.DetChecked++
			if res2.Hash != res.Hash {
				out.DetDiverged++
				msg := fmt.Sprintf("seed %d: NONDETERMINISM: trace hash %x vs %x", sc.Seed, res.Hash, res2.Hash)
				if res.Log != nil && res2.Log != nil {
					// where the two executions part
					a, b := res.Log.Events, res2.Log.Events
					for i := 0; i < len(a) && i < len(b); i++ {
						if a[i].String() != b[i].String() {
							msg += fmt.Sprintf("; first difference at event %d: %q vs %q", i, clipStr(a[i].String(), 160), clipStr(b[i].String(), 160))
							break
						}
					}
				}
				out.Trouble = append(out.Trouble, msg)
			}
		}
	}
	memLimit := uint64(envInt("VERIF_MEM_MB", 1500)) << 20
	out.NextIdx = from + count
	for i := from; i < from+count && time.Now().Before(deadline); i++ {
		if i > from && (i-from)%8 == 0 {
			var ms runtime.MemStats
			runtime.ReadMemStats(&ms)
			if ms.HeapInuse+ms.StackInuse > memLimit {
				runtime.GC()
				runtime.ReadMemStats(&ms)
				if ms.HeapInuse+ms.StackInuse > memLimit*2/3 {
					out.NextIdx = i
					out.Stats["worker_recycled_for_memory"]++
					break
				}
			}
		}
		seed := propSeed(base, prop, i)
		sc := pd.Gen(seed, i, tier)
		isSweep := false
		for _, c := range sc.Clients {
			if c.Name == "sweep" {
				isSweep = true
			}
		}
		if sc.StallSweep > 0 && !isSweep {
			// the forced stall (fault F13 placed on purpose) lands before every step of the task
			for k := 1; k <= sc.StallSweep && time.Now().Before(deadline); k++ {
				sk := *sc
				sk.ForceStallStep = k
				one(&sk, i)
				out.Stats["stall_sweep_points"]++
			}
			continue
		}
		if !isSweep {
			one(sc, i)
			continue
		}
		// baseline without the adversary, then inject at every step
		sc.SweepStep = 0
		res := RunScenario(t, sc, nil)
		out.Runs++
		if res.Out == nil || res.Out.Trouble != "" {
			out.Trouble = append(out.Trouble, fmt.Sprintf("seed %d: sweep baseline trouble", seed))
			continue
		}
		n := res.Out.Steps
		// the interesting part ends when the workload ends
		stride := sweepStride
		if n/stride > sweepMax {
			stride = n/sweepMax + 1
		}
		out.Stats["sweep_baselines"]++
		for k := 1 + int(seed%uint64(stride)); k <= n && time.Now().Before(deadline); k += stride {
			sk := *sc
			sk.SweepStep = k
			one(&sk, i)
			out.Stats["sweep_points"]++
		}
	}
	if pf := os.Getenv("VERIF_HEAPPROF"); pf != "" {
		runtime.GC()
		var ms runtime.MemStats
		runtime.ReadMemStats(&ms)
		fmt.Printf("MEM heap_inuse=%dMB stack_inuse=%dMB sys=%dMB goroutines=%d\n", ms.HeapInuse>>20, ms.StackInuse>>20, ms.Sys>>20, runtime.NumGoroutine())
		if f, err := os.Create(pf); err == nil {
			_ = pprof.WriteHeapProfile(f)
			f.Close()
		}
		if f, err := os.Create(pf + ".goroutines"); err == nil {
			_ = pprof.Lookup("goroutine").WriteTo(f, 1)
			f.Close()
		}
	}
	out.WallS = time.Since(t0).Seconds()
	sort.Strings(out.Hashes)
	b, _ := json.Marshal(out)
	if outPath != "" {
		if err := os.WriteFile(outPath, b, 0o644); err != nil {
			fmt.Println("TROUBLE", err)
			os.Exit(2)
		}
	} else {
		fmt.Printf("runs=%d violations=%d trouble=%d distinct=%d wall=%.1fs\n", out.Runs, len(out.Violations), len(out.Trouble), len(out.Hashes), out.WallS)
		for _, v := range out.Violations {
			fmt.Printf("VIOL %s seed=%d idx=%d (+%d) %s\n", v.Key(), v.Seed, v.Idx, v.Others, v.Msg)
		}
		for _, tr := range out.Trouble {
			fmt.Println("TROUBLE", tr)
		}
		ks := make([]string, 0)
		for k := range out.CrossObs {
			ks = append(ks, k)
		}
		sort.Strings(ks)
		for _, k := range ks {
			fmt.Printf("CROSS %s x%d\n", k, out.CrossObs[k])
		}
		ks = ks[:0]
		for k := range out.Stats {
			ks = append(ks, k)
		}
		sort.Strings(ks)
		var sb strings.Builder
		for _, k := range ks {
			fmt.Fprintf(&sb, "%s=%d ", k, out.Stats[k])
		}
		fmt.Println("STATS", sb.String())
	}
}

func accumulate(out *WorkerOut, sc *Scenario, res *RunResult, tr *Truth) {
	st := out.Stats
	o := res.Out
	st["steps"] += int64(o.Steps)
	st["decisions"] += int64(o.Decisions)
	st["preemptions"] += int64(o.Preemptions)
	st["contended_locks"] += int64(o.Contended)
	st["stable_points"] += int64(o.StablePoints)
	st["tasks"] += int64(o.NTasks)
	st["F13_stalled_task"] += int64(o.Stalls)
	st["sut_panics"] += int64(len(o.Panics))
	if o.StepLimit {
		st["step_limit_hit"]++
	}
	if o.HorizonHit {
		st["horizon_hit"]++
	}
	w := res.World.Stats
	st["execs"] += int64(w.Execs)
	st["exits"] += int64(w.Exits)
	st["signals_sent"] += int64(w.Kills)
	st["F1_F2_start_failure"] += int64(w.StartFail)
	st["F6_pipe_read_error"] += int64(w.ReadErr)
	st["F5_pipe_held_open"] += int64(w.HeldPipes)
	st["F14_esrch"] += int64(w.Esrch)
	out.SimMs += int64(o.FakeElapsed / time.Millisecond)
	if res.LoadErr != "" {
		st["load_errors"]++
	}
	for _, p := range projProcs(sc) {
		if sc.Project != nil && (p.LogLocation == "/dev/full" || strings.HasPrefix(p.LogLocation, "blocker/")) {
			st["F15_log_file_unusable"]++
		}
	}
	if tr == nil {
		return
	}
	for _, in := range tr.Insts {
		if in.BySig != 0 {
			st["F3_killed_by_signal"]++
		}
		if in.BySig == 9 {
			st["sigkill_deaths"]++
		}
	}
	for _, trs := range tr.Trans {
		for _, x := range trs {
			st["status_"+x.State]++
		}
	}
	for _, c := range tr.Calls {
		st["api_"+c.Op]++
		if c.Err != "" {
			st["api_errors"]++
		}
	}
	if tr.RunRet >= 0 {
		st["run_returned"]++
	}
	st["snapshots_stable"] += int64(len(tr.Snaps))
	st["arm_"+sc.Arm]++
	st["strategy_"+[]string{"uniform", "sticky", "pct"}[sc.Strategy.Kind%3]]++
}

func sampleOf(sc *Scenario, res *RunResult, tr *Truth) json.RawMessage {
	var lines []string
	for i := range res.Log.Events {
		e := &res.Log.Events[i]
		if e.Kind == "obs.snap" {
			continue
		}
		lines = append(lines, e.String())
		if len(lines) >= 40 {
			break
		}
	}
	m := map[string]any{"seed": sc.Seed, "arm": sc.Arm, "clients": sc.Clients, "event_log_prefix": lines, "steps": res.Out.Steps}
	if sc.Project != nil {
		m["yaml"] = sc.Project.Render("@TMP@")
	}
	if sc.LogBuf != nil {
		m["logbuf"] = sc.LogBuf
	}
	b, _ := json.Marshal(m)
	return b
}

func writeReplay(dir string, pd *PropDef, sc *Scenario, tape []int32, res *RunResult, v Violation) string {
	_ = os.MkdirAll(dir, 0o755)
	rp := Replay{Format: 1, Property: pd.ID, Seed: sc.Seed, Tree: os.Getenv("VERIF_TREE"), Scenario: sc, Tape: tape,
		Expect: ReplayWant{Class: v.Class, Disc: v.Disc, Msg: v.Msg, TraceHash: fmt.Sprintf("%016x", res.Hash)}}
	n := len(res.Log.Events)
	for i := max(0, n-60); i < n; i++ {
		if res.Log.Events[i].Kind != "obs.snap" {
			rp.Trace = append(rp.Trace, res.Log.Events[i].String())
		}
	}
	b, _ := json.MarshalIndent(rp, "", " ")
	path := fmt.Sprintf("%s/%s-%d.json", dir, pd.ID, sc.Seed)
	_ = os.WriteFile(path, b, 0o644)
	return path
}

// TestReplay re-executes a replay file: exit 1 semantics are handled by the driver from
// the printed lines.
func TestReplay(t *testing.T) {
	path := os.Getenv("VERIF_REPLAY")
	if path == "" {
		t.Skip("VERIF_REPLAY not set")
	}
	b, err := os.ReadFile(path)
	if err != nil {
		fmt.Println("TROUBLE", err)
		os.Exit(2)
	}
	var rp Replay
	if err := json.Unmarshal(b, &rp); err != nil {
		fmt.Println("TROUBLE", err)
		os.Exit(2)
	}
	pd := Props[rp.Property]
	if pd == nil {
		fmt.Println("TROUBLE unknown property", rp.Property)
		os.Exit(2)
	}
	if simsync.RaceEnabled {
		fmt.Fprintf(os.Stderr, "RACE-RUN-BEGIN idx=0 seed=%d\n", rp.Seed)
	}
	res, _, own, _ := runAndCheck(t, pd, rp.Scenario, rp.Tape)
	if simsync.RaceEnabled {
		fmt.Fprintf(os.Stderr, "RACE-RUN-END idx=0 seed=%d reports=0\n", rp.Seed)
	}
	if res.Out == nil || res.Out.Trouble != "" {
		fmt.Println("TROUBLE", res.BubbleErr, res.Out)
		os.Exit(2)
	}
	if os.Getenv("VERIF_VERBOSE") != "" {
		for i := range res.Log.Events {
			if res.Log.Events[i].Kind != "obs.snap" {
				fmt.Println(res.Log.Events[i].String())
			} else if sn, ok := res.Log.Events[i].Data.(Snap); ok && os.Getenv("VERIF_VERBOSE") == "2" {
				line := ""
				for _, st := range sn.States {
					line += fmt.Sprintf(" %s:%s/%s/%d", st.Name, st.Status, st.Health, st.ExitCode)
				}
				fmt.Printf("%06d %9.3fs      snap stable=%v%s\n", res.Log.Events[i].Seq, res.Log.Events[i].T.Seconds(), sn.Stable, line)
			}
		}
	}
	if os.Getenv("VERIF_VERBOSE") != "" {
		for _, n := range sortedNames(res.FinalLogs) {
			fmt.Printf("FINAL-LOG %s (%d lines): %q\n", n, len(res.FinalLogs[n]), clipList(res.FinalLogs[n], 12))
		}
		for _, n := range sortedNames(res.Files) {
			fmt.Printf("FILE %s (%d bytes): %q\n", n, len(res.Files[n]), clipStr(res.Files[n], 300))
		}
	}
	hash := fmt.Sprintf("%016x", res.Hash)
	fmt.Printf("REPLAY property=%s seed=%d trace_hash=%s expected_hash=%s tape_diverged=%v\n", rp.Property, rp.Seed, hash, rp.Expect.TraceHash, res.Out.TapeDiverged)
	same := false
	for _, v := range own {
		fmt.Printf("REPLAY-VIOLATION %s: %s\n", v.Key(), v.Msg)
		if v.Class == rp.Expect.Class {
			same = true
		}
	}
	if same {
		fmt.Printf("REPLAY-RESULT reproduced class=%s hash_match=%v\n", rp.Expect.Class, hash == rp.Expect.TraceHash)
	} else {
		fmt.Printf("REPLAY-RESULT not-reproduced violations=%d\n", len(own))
	}
}

// TestDiff runs one generated scenario twice and prints the first diverging event.
func TestDiff(t *testing.T) {
	prop := os.Getenv("VERIF_PROP")
	if prop == "" || os.Getenv("VERIF_DIFF") == "" {
		t.Skip()
	}
	pd := Props[prop]
	idx := envInt("VERIF_DIFF", 0)
	seed := propSeed(uint64(envInt("VERIF_SEED", 1)), prop, idx)
	for try := 0; try < 20; try++ {
		a := RunScenario(t, pd.Gen(seed, idx, ""), nil)
		b := RunScenario(t, pd.Gen(seed, idx, ""), nil)
		if a.Hash == b.Hash {
			continue
		}
		n := min(len(a.Log.Events), len(b.Log.Events))
		for i := 0; i < n; i++ {
			x, y := a.Log.Events[i].String(), b.Log.Events[i].String()
			if x != y {
				for j := max(0, i-12); j < i; j++ {
					fmt.Println("  ", a.Log.Events[j].String())
				}
				fmt.Println("A:", x)
				fmt.Println("B:", y)
				for j := i + 1; j < min(n, i+6); j++ {
					fmt.Println("A+", a.Log.Events[j].String())
					fmt.Println("B+", b.Log.Events[j].String())
				}
				return
			}
		}
		fmt.Println("lengths differ", len(a.Log.Events), len(b.Log.Events))
		return
	}
	fmt.Println("no divergence in 20 tries")
}

// TestShow prints the event log of one generated scenario (VERIF_PROP, VERIF_SHOW=idx).
func TestShow(t *testing.T) {
	prop := os.Getenv("VERIF_PROP")
	if prop == "" || os.Getenv("VERIF_SHOW") == "" {
		t.Skip()
	}
	pd := Props[prop]
	idx := envInt("VERIF_SHOW", 0)
	seed := propSeed(uint64(envInt("VERIF_SEED", 1)), prop, idx)
	sc := pd.Gen(seed, idx, "")
	res, tr, own, cross := runAndCheck(t, pd, sc, nil)
	fmt.Printf("arm=%s seed=%d\n", sc.Arm, seed)
	if sc.Project != nil {
		fmt.Println(sc.Project.Render("@TMP@"))
	}
	b, _ := json.Marshal(sc.Clients)
	fmt.Println("clients:", string(b))
	for i := range res.Log.Events {
		e := &res.Log.Events[i]
		if e.Kind == "obs.snap" {
			if sn, ok := e.Data.(Snap); ok && os.Getenv("VERIF_SNAPS") != "" {
				fmt.Printf("%s stable=%v %v\n", e.String(), sn.Stable, sn.States)
			}
			continue
		}
		fmt.Println(e.String())
	}
	_ = tr
	for _, v := range own {
		fmt.Println("OWN", v.Key(), v.Msg)
	}
	for _, v := range cross {
		fmt.Println("CROSS", v.Key(), v.Msg)
	}
}

func projProcs(sc *Scenario) []*ProcSpec {
	if sc.Project == nil {
		return nil
	}
	return sc.Project.Procs
}
