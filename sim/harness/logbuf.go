package harness

import (
	"math"
	"fmt"
	"strings"
	"time"

	"github.com/anishathalye/porcupine"
	"github.com/f1bonacc1/process-compose/src/pclog"

	"verifrt/simlog"
	"verifrt/simsync"
)

// ---- C18 workload on the real pclog.ProcessLogBuffer ----

type LBWriter struct {
	Lines   int `json:"lines"`
	GapMs   int `json:"gap_ms"`
	StartMs int `json:"start_ms"`
}

type LBReader struct {
	Calls [][2]int `json:"calls"` // (offsetFromEnd, limit)
	GapMs int      `json:"gap_ms"`
}

type LBSub struct {
	AtMs   int `json:"at_ms"`
	Tail   int `json:"tail"`
	ForMs  int `json:"for_ms"` // unsubscribes after this long (<0: never)
	Repeat int `json:"repeat,omitempty"`
}

type LogBufSpec struct {
	Size    int        `json:"size"`
	Writers []LBWriter `json:"writers"`
	Readers []LBReader `json:"readers"`
	Subs    []LBSub    `json:"subs"`
	Grid    int        `json:"grid,omitempty"` // >0: sequential exhaustive (offset,limit) grid on a log of this many lines
	Trim    int        `json:"trim,omitempty"` // >0: sequential trim arm: write this many lines, checking the window
	Race    bool       `json:"race,omitempty"` // concurrent trim arm: readers take windows while the log drops its oldest lines
}

func runLogBuf(sc *Scenario) {
	spec := sc.LogBuf
	buf := pclog.NewLogBuffer(spec.Size)
	if spec.Grid > 0 || spec.Trim > 0 {
		runLogBufSequential(spec, buf)
		return
	}
	var wg simsync.WaitGroup
	for wi := range spec.Writers {
		w := spec.Writers[wi]
		wg.Add(1)
		simsync.GoNamed(fmt.Sprintf("writer%d", wi), func() {
			defer wg.Done()
			simsync.Sleep(simsync.SiteHarness, time.Duration(w.StartMs)*time.Millisecond)
			for k := 0; k < w.Lines; k++ {
				id := fmt.Sprintf("w%d-%d", wi, k)
				simlog.Add(simlog.Event{Kind: "lb.w.call", Subj: id, N: wi})
				buf.Write(id)
				simlog.Add(simlog.Event{Kind: "lb.w.ret", Subj: id, N: wi})
				if w.GapMs > 0 {
					simsync.Sleep(simsync.SiteHarness, time.Duration(w.GapMs)*time.Millisecond)
				} else {
					simsync.Yield(simsync.SiteHarness)
				}
			}
		})
	}
	for ri := range spec.Readers {
		r := spec.Readers[ri]
		wg.Add(1)
		simsync.GoNamed(fmt.Sprintf("reader%d", ri), func() {
			defer wg.Done()
			for k, c := range r.Calls {
				simlog.Add(simlog.Event{Kind: "lb.r.call", Subj: fmt.Sprintf("r%d-%d", ri, k), N: ri, A: fmt.Sprintf("%d,%d", c[0], c[1])})
				res := buf.GetLogRange(c[0], c[1])
				simlog.Add(simlog.Event{Kind: "lb.r.ret", Subj: fmt.Sprintf("r%d-%d", ri, k), N: ri, A: fmt.Sprintf("%d,%d", c[0], c[1]), Data: append([]string(nil), res...)})
				if r.GapMs > 0 {
					simsync.Sleep(simsync.SiteHarness, time.Duration(r.GapMs)*time.Millisecond)
				} else {
					simsync.Yield(simsync.SiteHarness)
				}
			}
		})
	}
	for si := range spec.Subs {
		s := spec.Subs[si]
		wg.Add(1)
		simsync.GoNamed(fmt.Sprintf("sub%d", si), func() {
			defer wg.Done()
			simsync.Sleep(simsync.SiteHarness, time.Duration(s.AtMs)*time.Millisecond)
			name := fmt.Sprintf("s%d", si)
			conn := pclog.NewConnector(
				func(lines []string) {
					simlog.Add(simlog.Event{Kind: "lb.s.lines", Subj: name, N: si, Data: append([]string(nil), lines...)})
				},
				func(line string) (int, error) {
					simlog.Add(simlog.Event{Kind: "lb.s.line", Subj: name, N: si, A: line})
					return len(line), nil
				}, s.Tail)
			simlog.Add(simlog.Event{Kind: "lb.s.call", Subj: name, N: si, A: fmt.Sprint(s.Tail)})
			buf.GetLogsAndSubscribe(conn)
			simlog.Add(simlog.Event{Kind: "lb.s.ret", Subj: name, N: si})
			if s.ForMs >= 0 {
				simsync.Sleep(simsync.SiteHarness, time.Duration(s.ForMs)*time.Millisecond)
				simlog.Add(simlog.Event{Kind: "lb.u.call", Subj: name, N: si})
				buf.UnSubscribe(conn)
				simlog.Add(simlog.Event{Kind: "lb.u.ret", Subj: name, N: si})
			}
		})
	}
	var done simsync.Event
	simsync.GoNamed("lb-wait", func() { wg.Wait(); done.Set() })
	if !done.WaitTimeout(time.Hour) {
		simlog.Add(simlog.Event{Kind: "lb.hang"})
	}
	simlog.Add(simlog.Event{Kind: "lb.final", N: buf.GetLogLength(), Data: append([]string(nil), buf.GetLogRange(1<<30, 0)...)})
}

func refRange(log []string, off, lim int) []string {
	n := len(log)
	if off < 0 {
		off = 0
	}
	if off > n {
		off = n
	}
	start := n - off
	if lim < 1 || lim >= n-start {
		return log[start:]
	}
	return log[start : start+lim]
}

func runLogBufSequential(spec *LogBufSpec, buf *pclog.ProcessLogBuffer) {
	var log []string
	if spec.Grid > 0 {
		for i := 0; i < spec.Grid; i++ {
			id := fmt.Sprintf("g%d", i)
			buf.Write(id)
			log = append(log, id)
			simsync.Yield(simsync.SiteHarness)
		}
		// every pair of small numbers around the log's length, and the extremes of int
		var vals []int
		for v := -3; v <= spec.Grid+3; v++ {
			vals = append(vals, v)
		}
		vals = append(vals, math.MinInt, math.MinInt+1, math.MinInt32, math.MaxInt32, 1<<40, math.MaxInt-spec.Grid, math.MaxInt-1, math.MaxInt)
		try := func(off, lim int) (got []string, panicked any) {
			defer func() { panicked = recover() }()
			return buf.GetLogRange(off, lim), nil
		}
		for _, off := range vals {
			for _, lim := range vals {
				got, pv := try(off, lim)
				want := refRange(log, off, lim)
				if pv != nil {
					simlog.Add(simlog.Event{Kind: "lb.grid.bad", A: fmt.Sprintf("n=%d offset=%d limit=%d", spec.Grid, off, lim), B: fmt.Sprintf("panic: %v", pv)})
				} else if strings.Join(got, ",") != strings.Join(want, ",") {
					simlog.Add(simlog.Event{Kind: "lb.grid.bad", A: fmt.Sprintf("n=%d offset=%d limit=%d", spec.Grid, off, lim), B: fmt.Sprintf("got %v want %v", got, want)})
				}
				simlog.Add(simlog.Event{Kind: "lb.grid.ok", N: 1})
			}
		}
		return
	}
	for i := 0; i < spec.Trim; i++ {
		id := fmt.Sprintf("t%d", i)
		buf.Write(id)
		log = append(log, id)
		if i%7 == 0 || i == spec.Trim-1 {
			all := buf.GetLogRange(1<<30, 0)
			simlog.Add(simlog.Event{Kind: "lb.trim.obs", N: len(log), A: fmt.Sprint(len(all)), Data: append([]string(nil), all...)})
		}
		if i%16 == 0 {
			simsync.Yield(simsync.SiteHarness)
		}
	}
}

// ---- oracle ----

type lbOp struct {
	kind string // w r s
	id   string
	off  int
	lim  int
	out  []string
}

func checkC18(sc *Scenario, res *RunResult, t *Truth) []Violation {
	var vs []Violation
	spec := sc.LogBuf
	if spec == nil {
		if sc.Arm == "ws" {
			return checkC18WS(sc, res, t)
		}
		return nil
	}
	for _, p := range res.Out.Panics {
		vs = append(vs, Violation{"C18", "log-call-panicked", topSutFrame(p.Stack), fmt.Sprintf("panic in %s: %s", p.Task, p.Value), 0})
	}
	evs := t.Events
	// sequential arms
	for i := range evs {
		e := &evs[i]
		switch e.Kind {
		case "lb.grid.bad":
			vs = append(vs, Violation{"C18", "range-wrong-window", "grid", fmt.Sprintf("GetLogRange %s: %s", e.A, e.B), e.Seq})
			return vs
		case "lb.trim.obs":
			w := e.N
			all, _ := e.Data.([]string)
			min := w
			if spec.Size < min {
				min = spec.Size
			}
			if len(all) < min {
				vs = append(vs, Violation{"C18", "window-too-short", "", fmt.Sprintf("after %d writes the buffer (log_length %d) holds only %d lines", w, spec.Size, len(all)), e.Seq})
				return vs
			}
			if len(all) > 2*spec.Size+250 {
				vs = append(vs, Violation{"C18", "window-unbounded", "", fmt.Sprintf("after %d writes the buffer (log_length %d) holds %d lines", w, spec.Size, len(all)), e.Seq})
				return vs
			}
			for k, id := range all {
				if id != fmt.Sprintf("t%d", w-len(all)+k) {
					vs = append(vs, Violation{"C18", "window-not-most-recent-lines", "", fmt.Sprintf("after %d writes position %d of the window holds %s", w, k, id), e.Seq})
					return vs
				}
			}
		case "lb.hang":
			vs = append(vs, Violation{"C18", "log-call-blocked", "", "a writer, reader or subscriber had not finished after one simulated hour", e.Seq})
		}
	}
	if spec.Grid > 0 || spec.Trim > 0 {
		return vs
	}
	if spec.Race {
		// every window is a piece of the log as it was at some moment: per writer its lines are
		// consecutive (a panic of the call has been reported above)
		for i := range evs {
			e := &evs[i]
			if e.Kind != "lb.r.ret" {
				continue
			}
			win, _ := e.Data.([]string)
			last := map[int]int{}
			for _, id := range win {
				var wi, k int
				if n, _ := fmt.Sscanf(id, "w%d-%d", &wi, &k); n != 2 {
					vs = append(vs, Violation{"C18", "range-wrong-window", "race", fmt.Sprintf("GetLogRange(%s) returned the line %q, which nobody wrote", e.A, id), e.Seq})
					return vs
				}
				if l, ok := last[wi]; ok && k != l+1 {
					vs = append(vs, Violation{"C18", "range-wrong-window", "race", fmt.Sprintf("GetLogRange(%s) returned a window in which %s follows w%d-%d: the log never held that", e.A, id, wi, l), e.Seq})
					return vs
				}
				last[wi] = k
			}
		}
		return vs
	}
	// concurrent arm: final order
	var final []string
	for i := range evs {
		if evs[i].Kind == "lb.final" {
			final, _ = evs[i].Data.([]string)
		}
	}
	pos := map[string]int{}
	for i, id := range final {
		if _, dup := pos[id]; dup {
			vs = append(vs, Violation{"C18", "line-duplicated-in-buffer", "", fmt.Sprintf("line %s occurs twice in the buffer", id), 0})
		}
		pos[id] = i
	}
	total := 0
	for _, w := range spec.Writers {
		total += w.Lines
	}
	if total <= spec.Size && len(final) != total {
		vs = append(vs, Violation{"C18", "line-lost-from-buffer", "", fmt.Sprintf("%d lines were written (log_length %d) but the buffer holds %d", total, spec.Size, len(final)), 0})
	}
	// per-writer order preserved
	last := map[int]int{}
	for _, id := range final {
		var wi, k int
		fmt.Sscanf(id, "w%d-%d", &wi, &k)
		if l, ok := last[wi]; ok && k != l+1 {
			vs = append(vs, Violation{"C18", "writer-order-broken", "", fmt.Sprintf("line %s follows w%d-%d in the buffer", id, wi, l), 0})
		}
		last[wi] = k
	}
	// followers
	type subSt struct {
		seq      []string
		callSeq  int
		retSeq   int
		ucallSeq int
		uretSeq  int
		tail     int
	}
	subs := map[string]*subSt{}
	wcall, wret := map[string]int{}, map[string]int{}
	for i := range evs {
		e := &evs[i]
		switch e.Kind {
		case "lb.w.call":
			wcall[e.Subj] = e.Seq
		case "lb.w.ret":
			wret[e.Subj] = e.Seq
		case "lb.s.call":
			st := &subSt{callSeq: e.Seq, retSeq: -1, ucallSeq: -1, uretSeq: -1}
			fmt.Sscanf(e.A, "%d", &st.tail)
			subs[e.Subj] = st
		case "lb.s.lines":
			if st := subs[e.Subj]; st != nil {
				ls, _ := e.Data.([]string)
				st.seq = append(st.seq, ls...)
			}
		case "lb.s.line":
			if st := subs[e.Subj]; st != nil {
				if st.uretSeq >= 0 {
					vs = append(vs, Violation{"C18", "line-after-unsubscribe", "", fmt.Sprintf("follower %s received %s after its unsubscribe had returned", e.Subj, e.A), e.Seq})
				}
				st.seq = append(st.seq, e.A)
			}
		case "lb.s.ret":
			if st := subs[e.Subj]; st != nil {
				st.retSeq = e.Seq
			}
		case "lb.u.call":
			if st := subs[e.Subj]; st != nil {
				st.ucallSeq = e.Seq
			}
		case "lb.u.ret":
			if st := subs[e.Subj]; st != nil {
				st.uretSeq = e.Seq
			}
		}
	}
	if total <= spec.Size {
		for _, name := range sortedNames(subs) {
			st := subs[name]
			// contiguous slice of the final order, no gap, no duplicate
			for k := 1; k < len(st.seq); k++ {
				a, okA := pos[st.seq[k-1]]
				b, okB := pos[st.seq[k]]
				if !okA || !okB || b != a+1 {
					cls := "follower-gap"
					if okA && okB && b <= a {
						cls = "follower-duplicate-or-reorder"
					}
					vs = append(vs, Violation{"C18", cls, "", fmt.Sprintf("follower %s (tail %d) received %s right after %s; buffer order has them at %d and %d", name, st.tail, st.seq[k], st.seq[k-1], b, a), st.callSeq})
					break
				}
			}
			// completeness: every line whose write began after the subscription returned and
			// completed before the unsubscribe was requested must have been received
			got := map[string]bool{}
			for _, id := range st.seq {
				got[id] = true
			}
			for id, wc := range wcall {
				wr, ok := wret[id]
				if !ok || st.retSeq < 0 {
					continue
				}
				if wc > st.retSeq && (st.ucallSeq < 0 || wr < st.ucallSeq) && !got[id] {
					vs = append(vs, Violation{"C18", "follower-missed-line", "", fmt.Sprintf("follower %s never received %s, written entirely while it was subscribed", name, id), wc})
					break
				}
			}
			// the tail: lines completely written before the subscription was requested
			var before []string
			for _, id := range final {
				if wr, ok := wret[id]; ok && wr < st.callSeq {
					before = append(before, id)
				}
			}
			wantTail := st.tail
			if wantTail > len(before) {
				wantTail = len(before)
			}
			if wantTail < 0 {
				wantTail = 0
			}
			// the tail window is taken at the linearisation point of the subscription: it
			// must at least contain the last wantTail lines that were complete before the call
			if len(st.seq) > 0 || wantTail > 0 {
				need := before[len(before)-wantTail:]
				for _, id := range need {
					// lines written concurrently may push old ones out of a tail of fixed length
					concurrent := 0
					for w2, c2 := range wcall {
						if r2, ok := wret[w2]; ok && c2 < st.retSeq && r2 > st.callSeq {
							concurrent++
						}
					}
					if !got[id] && concurrent == 0 {
						vs = append(vs, Violation{"C18", "follower-tail-missing", "", fmt.Sprintf("follower %s subscribed with tail %d but did not receive %s, one of the last %d lines written before", name, st.tail, id, wantTail), st.callSeq})
						break
					}
				}
			}
		}
	}
	// linearizability of writes, range reads and subscription tails against a sequential log
	if total <= spec.Size {
		var ops []porcupine.Operation
		open := map[string]int{}
		client := 0
		for i := range evs {
			e := &evs[i]
			switch e.Kind {
			case "lb.w.call", "lb.r.call":
				open[e.Kind[:4]+e.Subj] = e.Seq
			case "lb.w.ret":
				ops = append(ops, porcupine.Operation{ClientId: client, Input: lbOp{kind: "w", id: e.Subj}, Call: int64(open["lb.w"+e.Subj]), Output: nil, Return: int64(e.Seq)})
				client++
			case "lb.r.ret":
				var off, lim int
				fmt.Sscanf(e.A, "%d,%d", &off, &lim)
				out, _ := e.Data.([]string)
				ops = append(ops, porcupine.Operation{ClientId: client, Input: lbOp{kind: "r", off: off, lim: lim}, Call: int64(open["lb.r"+e.Subj]), Output: out, Return: int64(e.Seq)})
				client++
			}
		}
		if len(ops) <= 60 {
			model := porcupine.Model{
				Init: func() interface{} { return "" },
				Step: func(state, input, output interface{}) (bool, interface{}) {
					st := state.(string)
					in := input.(lbOp)
					if in.kind == "w" {
						if st == "" {
							return true, in.id
						}
						return true, st + "," + in.id
					}
					var log []string
					if st != "" {
						log = strings.Split(st, ",")
					}
					out, _ := output.([]string)
					return strings.Join(refRange(log, in.off, in.lim), ",") == strings.Join(out, ","), state
				},
				Equal: func(a, b interface{}) bool { return a.(string) == b.(string) },
			}
			switch porcupine.CheckOperationsTimeout(model, ops, 20*time.Second) {
			case porcupine.Illegal:
				vs = append(vs, Violation{"C18", "not-linearizable", "", fmt.Sprintf("the history of %d Write/GetLogRange operations is not linearizable against a sequential log with the documented (offset, limit) window", len(ops)), 0})
			case porcupine.Unknown:
				res.Notes = append(res.Notes, "porcupine-unknown")
			default:
				res.Notes = append(res.Notes, "porcupine-ok")
			}
		}
	}
	return vs
}
