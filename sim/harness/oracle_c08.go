package harness

import (
	"time"
	"verifrt/simos"

	"fmt"
	"strings"
)

// ---- C08: manual start/stop/restart semantics, at most one live instance ----

func (t *Truth) activeDuring(rep string, fromSeq, toSeq int) (everActive, everInactive bool) {
	// walk the status timeline; the initial status (Pending, set by Run) counts as active
	// once Run() has been called
	status := "Pending"
	trs := t.Trans[rep]
	idx := 0
	check := func(st string) {
		switch st {
		case "Pending", "Restarting":
			everActive = true
		case "Running", "Launching", "Launched":
			everActive = true
		case "Terminating":
			// ambiguous: a process stopped before its launch shows Terminating without ever
			// having had a command (inactive), one being terminated is still active
			everActive = true
			everInactive = true
		default:
			everInactive = true
		}
	}
	for idx < len(trs) && trs[idx].Seq <= fromSeq {
		status = trs[idx].State
		idx++
	}
	check(status)
	if idx == 0 {
		// no status of its own yet: Run() may not have got round to it (a shutdown that began
		// during the start-up leaves the remaining processes unregistered)
		everInactive = true
	}
	for idx < len(trs) && trs[idx].Seq <= toSeq {
		check(trs[idx].State)
		idx++
	}
	// a successful start/restart request registers a new instance no later than its return;
	// until that instance shows a status of its own the replica is active although the
	// status still shows the previous instance's final state
	for _, d := range t.Calls {
		if (d.Op == "start" || d.Op == "restart") && d.Arg == rep && d.Err == "" && d.CallSeq <= toSeq && (d.RetSeq < 0 || d.RetSeq >= fromSeq || pendingAfter(t, rep, d, fromSeq)) {
			everActive = true
		}
	}
	// a live command means active whatever the status says
	for _, in := range t.ByRep[rep] {
		if in.ExecSeq <= toSeq && (in.ExitSeq < 0 || in.ExitSeq >= fromSeq) {
			everActive = true
		}
	}
	return
}

// seqAtTime returns the first log position whose fake time is >= tm.
func (t *Truth) firstSeqAtOrAfter(tm int64) int {
	for i := range t.Events {
		if int64(t.Events[i].T) >= tm {
			return t.Events[i].Seq
		}
	}
	return t.EndSeq
}

// genC08Rename: a scale request across a name-width boundary renames the replicas; the
// previous names are unknown from then on - requests that use them fail and change nothing
func genC08Rename(r *R, sc *Scenario) {
	spec := &ProjectSpec{}
	sc.Project = spec
	sc.Scripts = map[string]*TokenScript{}
	n0 := Pick(r, 1, 1, 9)
	spec.Procs = append(spec.Procs, &ProcSpec{Name: "w", Token: "w.{{.PC_REPLICA_NUM}}", Replicas: n0}, &ProcSpec{Name: "b0", Token: "b0"})
	life := simos.Script{LifeMs: -1, TermLagMs: Pick(r, 0, 100)}
	sc.Scripts["w.*"] = &TokenScript{Launches: []simos.Script{life, life, life, life}}
	sc.Scripts["b0"] = &TokenScript{Launches: []simos.Script{{LifeMs: -1}}}
	before := ReplicaNames("w", n0)
	after := ReplicaNames("w", n0+1)
	ops := []Op{
		{AtMs: 1000, Op: "scale", Arg: before[0], N: n0 + 1},
		{AtMs: 2500, Op: Pick(r, "stop", "restart", "start", "stop"), Arg: before[r.Intn(len(before))]},
		{AtMs: 4500, Op: "scale", Arg: after[0], N: n0},
		{AtMs: 6000, Op: Pick(r, "stop", "restart", "stop"), Arg: after[r.Intn(n0)]},
		{AtMs: 8000, Op: "stop", Arg: before[0]},
	}
	sc.Clients = []Client{{Name: "rn", Ops: ops}}
	sc.Strategy = genStrategy(r)
	sc.Strategy.StallPermille = 0
	sc.RunForMs = 12000
	sc.QuietMs = 3000
	sc.Arm = "rename"
}

// genC08UpdatePending: a process that is still waiting for its dependency is replaced by a
// live update; when the dependency has completed the new instance runs, is the one and only
// instance, and start / stop requests address it
func genC08UpdatePending(r *R, sc *Scenario) {
	spec := &ProjectSpec{}
	sc.Project = spec
	sc.Scripts = map[string]*TokenScript{}
	spec.Procs = append(spec.Procs, &ProcSpec{Name: "ud", Token: "ud"}, &ProcSpec{Name: "ua", Token: "ua", DependsOn: map[string]string{"ud": Pick(r, "process_completed", "process_completed_successfully")}})
	sc.Scripts["ud"] = &TokenScript{Launches: []simos.Script{{LifeMs: Pick(r, 2500, 3500), Exit: 0}}}
	life := simos.Script{LifeMs: -1, TermLagMs: Pick(r, 0, 10, 100)}
	sc.Scripts["ua"] = &TokenScript{Launches: []simos.Script{life, life, life, life}}
	up := cloneSpec(spec)
	up.Procs[1].Env = append(up.Procs[1].Env, "UPD=1")
	sc.Updates = []*ProjectSpec{up}
	ops := []Op{{AtMs: Pick(r, 500, 1000, 1500), Op: Pick(r, "update", "reload"), N: 0}, {AtMs: Pick(r, 4500, 5500), Op: "start", Arg: "ua"}, {AtMs: 7000, Op: "stop", Arg: "ua"}}
	if r.P(500) {
		ops = append(ops, Op{AtMs: 8500, Op: "start", Arg: "ua"}, Op{AtMs: 10000, Op: "stop", Arg: "ua"})
	}
	sc.Clients = []Client{{Name: "up", Ops: ops}}
	sc.Strategy = genStrategy(r)
	sc.Strategy.StallPermille = 0
	sc.RunForMs = 13000
	sc.QuietMs = 3000
	sc.Arm = "updatepending"
}

// checkC08Rename: which names exist follows the scale requests that succeeded
func checkC08Rename(sc *Scenario, t *Truth) []Violation {
	var vs []Violation
	w := sc.Project.Proc("w")
	known := map[string]bool{"b0": true}
	for _, rn := range ReplicaNames("w", w.Replicas) {
		known[rn] = true
	}
	for _, c := range t.Calls {
		if c.RetSeq < 0 {
			continue
		}
		switch c.Op {
		case "scale":
			if c.Err == "" {
				known = map[string]bool{"b0": true}
				n := 0
				if i := strings.LastIndexByte(c.Desc, ','); i >= 0 {
					fmt.Sscanf(c.Desc[i+1:], "%d", &n)
				}
				for _, rn := range ReplicaNames("w", n) {
					known[rn] = true
				}
			}
		case "start", "stop", "restart":
			if known[c.Arg] {
				continue
			}
			if c.Err == "" {
				vs = append(vs, Violation{"C08", "unknown-name-accepted", c.Op, fmt.Sprintf("%s returned success although no process has that name any more (the replicas were renamed by the scale request)", c.Desc), c.RetSeq})
				continue
			}
			for _, in := range t.Insts {
				for _, k := range in.Kills {
					if k.Task == c.Task && k.Seq > c.CallSeq && k.Seq < c.RetSeq {
						vs = append(vs, Violation{"C08", "unknown-name-changed-something", c.Op, fmt.Sprintf("%s failed (%s) - no process has that name any more - but sent signal %d to %s (pid %d)", c.Desc, c.Err, k.Sig, in.Replica, in.Pid), k.Seq})
					}
				}
			}
		}
	}
	return vs
}

func checkC08(sc *Scenario, t *Truth) []Violation {
	var vs []Violation
	if sc.Arm == "rename" {
		return checkC08Rename(sc, t)
	}
	known := map[string]bool{}
	for _, p := range sc.Project.Procs {
		for _, rn := range ReplicaNames(p.Name, p.Replicas) {
			known[rn] = true
		}
	}
	for _, c := range t.Calls {
		if c.RetSeq < 0 {
			if (c.Op == "start" || c.Op == "stop" || c.Op == "restart") && sc.Strategy.StallPermille == 0 && t.EndT-c.CallT > 10*time.Minute {
				vs = append(vs, Violation{"C08", "request-never-returned", c.Op, fmt.Sprintf("%s invoked at t=%v had not returned %v later", c.Desc, c.CallT, t.EndT-c.CallT), c.CallSeq})
			}
			continue
		}
		switch c.Op {
		case "start", "stop", "restart":
		default:
			continue
		}
		rep := c.Arg
		if p := sc.specOfReplica(rep); p != nil && p.IsDaemon && c.Op == "stop" && c.Err == "" && t.Final != nil && sc.Strategy.StallPermille == 0 {
			// a daemon has no command to look at: a stop that was acknowledged (and not followed
			// by a start) leaves it neither Launching nor Launched
			later := false
			for _, d := range t.Calls {
				if d.Arg == rep && isStartOp(d.Op) && (d.CallSeq > c.CallSeq || d.RetSeq < 0 || d.RetSeq > c.CallSeq) {
					later = true // (also a restart that was under way and launches afterwards)
				}
			}
			if st, ok := t.Final.States[rep]; ok && !later && (st.Status == "Launched" || st.Status == "Launching") {
				vs = append(vs, Violation{"C08", "stop-did-not-terminate", "daemon", fmt.Sprintf("%s returned success but the daemon %s is still reported %s at the end of the run", c.Desc, rep, st.Status), c.RetSeq})
			}
		}
		if !known[rep] {
			if c.Err == "" {
				vs = append(vs, Violation{"C08", "unknown-name-accepted", c.Op, fmt.Sprintf("%s on unknown process %q returned success", c.Op, rep), c.RetSeq})
			}
			continue
		}
		p := sc.specOfReplica(rep)
		// the window in which the request may have taken effect, widened to the whole
		// fake instant of its invocation (bookkeeping of an ending instance finishes
		// within the instant at which it ended)
		from := t.firstSeqAtOrAfter(int64(c.CallT))
		everActive, everInactive := t.activeDuring(rep, from, c.RetSeq)
		if sc.Strategy.StallPermille > 0 {
			// with stalled supervisor goroutines (fault F13) the registry may lag behind the
			// reported status by seconds: the outcome-vs-activity clauses are not judged
			everActive, everInactive = true, true
		}
		switch c.Op {
		case "start":
			if c.Err == "" {
				if !everInactive && p != nil && !p.Disabled && !p.Foreground {
					vs = append(vs, Violation{"C08", "start-succeeded-while-active", t.StatusAt(rep, c.CallSeq), fmt.Sprintf("%s returned success although %s was active (status %s) during the whole request", c.Desc, rep, t.StatusAt(rep, c.CallSeq)), c.RetSeq})
				}
			} else if strings.Contains(c.Err, "already running") {
				if !everActive {
					vs = append(vs, Violation{"C08", "start-refused-while-inactive", t.StatusAt(rep, c.CallSeq), fmt.Sprintf("%s failed with %q although %s was not active (status %s)", c.Desc, c.Err, rep, t.StatusAt(rep, c.CallSeq)), c.RetSeq})
				}
			}
		case "stop":
			if c.Err == "" {
				// the command that was alive must die, and must not be relaunched automatically
				for _, in := range t.ByRep[rep] {
					if in.AliveAt(c.CallSeq) && in.ExitSeq < 0 && terminationOwed(sc, rep) {
						vs = append(vs, Violation{"C08", "stop-did-not-terminate", "", fmt.Sprintf("%s returned success but the command of %s (pid %d) was still alive at the end of the run", c.Desc, rep, in.Pid), c.RetSeq})
					}
				}
			} else if strings.Contains(c.Err, "not running") || strings.Contains(c.Err, "does not exist") {
				if !everInactive && strings.Contains(c.Err, "not running") {
					// refused although it was active all along
					live := false
					for _, in := range t.ByRep[rep] {
						if in.ExecSeq < from && (in.ExitSeq < 0 || in.ExitSeq > c.RetSeq) {
							live = true
						}
					}
					if live {
						vs = append(vs, Violation{"C08", "stop-refused-while-running", "", fmt.Sprintf("%s failed with %q although a command of %s was alive during the whole request", c.Desc, c.Err, rep), c.RetSeq})
					}
				}
			} else if sc.Strategy.StallPermille == 0 {
				// any other failure of a stop of a known process: the command was signalled and
				// went away - what is there to fail?
				gone := true
				for _, in := range t.ByRep[rep] {
					if in.AliveAt(c.RetSeq) {
						gone = false
					}
				}
				if gone {
					vs = append(vs, Violation{"C08", "stop-failed-although-stopped", "", fmt.Sprintf("%s failed with %q after %v although no command of %s is alive any more", c.Desc, c.Err, c.RetT-c.CallT, rep), c.RetSeq})
				}
			}
		case "restart":
			if c.Err == "" {
				// exactly one new instance attributable to this request: count launches
				// between the invocation and the next explicit request on the same replica
				next := t.EndSeq + 1
				for _, d := range t.Calls {
					if d != c && d.CallSeq > c.CallSeq && d.Arg == rep && isStartOp(d.Op) && d.CallSeq < next {
						next = d.CallSeq
					}
				}
				_ = next
			}
		}
	}
	// successful stop => no automatic relaunch afterwards (shared with C02's clause)
	for _, v := range checkC02(sc, t) {
		if v.Class == "relaunch-after-stop-returned" {
			v.Prop = "C08"
			vs = append(vs, v)
		}
	}
	return vs
}

func terminationOwed(sc *Scenario, rep string) bool {
	p := sc.specOfReplica(rep)
	if p == nil {
		return false
	}
	if p.StopTimeout != nil && !p.ParentOnly {
		return true
	}
	ts := sc.Scripts[p.Token]
	if ts == nil {
		return true
	}
	for _, l := range ts.Launches {
		for _, s := range l.Ignore {
			if s == 15 {
				return false
			}
		}
	}
	return true
}

// pendingAfter: the instance registered by request d has not shown any status of its own
// before position seq.
func pendingAfter(t *Truth, rep string, d *Call, seq int) bool {
	for _, tr := range t.Trans[rep] {
		if tr.Seq > d.CallSeq && tr.Seq < seq && (tr.State == "Running" || tr.State == "Launching" || tr.State == "Skipped" || tr.State == "Error") {
			return false
		}
	}
	return true
}
