package harness

import (
	"fmt"
	"strings"
)

// ---- C08: manual start/stop/restart semantics, at most one live instance ----

func (t *Truth) activeDuring(rep string, fromSeq, toSeq int) (everActive, everInactive bool) {
	// walk the status timeline; the initial status (Pending, set by Run) counts as active
	// once Run() has been called
	status := "Pending"
	trs := t.Trans[rep]
	idx := 0
	check := func(st string) {
		switch st {
		case "Pending", "Restarting":
			everActive = true
		case "Running", "Launching", "Launched":
			everActive = true
		case "Terminating":
			// ambiguous: a process stopped before its launch shows Terminating without ever
			// having had a command (inactive), one being terminated is still active
			everActive = true
			everInactive = true
		default:
			everInactive = true
		}
	}
	for idx < len(trs) && trs[idx].Seq <= fromSeq {
		status = trs[idx].State
		idx++
	}
	check(status)
	if idx == 0 {
		// no status of its own yet: Run() may not have got round to it (a shutdown that began
		// during the start-up leaves the remaining processes unregistered)
		everInactive = true
	}
	for idx < len(trs) && trs[idx].Seq <= toSeq {
		check(trs[idx].State)
		idx++
	}
	// a successful start/restart request registers a new instance no later than its return;
	// until that instance shows a status of its own the replica is active although the
	// status still shows the previous instance's final state
	for _, d := range t.Calls {
		if (d.Op == "start" || d.Op == "restart") && d.Arg == rep && d.Err == "" && d.CallSeq <= toSeq && (d.RetSeq < 0 || d.RetSeq >= fromSeq || pendingAfter(t, rep, d, fromSeq)) {
			everActive = true
		}
	}
	// a live command means active whatever the status says
	for _, in := range t.ByRep[rep] {
		if in.ExecSeq <= toSeq && (in.ExitSeq < 0 || in.ExitSeq >= fromSeq) {
			everActive = true
		}
	}
	return
}

// seqAtTime returns the first log position whose fake time is >= tm.
func (t *Truth) firstSeqAtOrAfter(tm int64) int {
	for i := range t.Events {
		if int64(t.Events[i].T) >= tm {
			return t.Events[i].Seq
		}
	}
	return t.EndSeq
}

func checkC08(sc *Scenario, t *Truth) []Violation {
	var vs []Violation
	known := map[string]bool{}
	for _, p := range sc.Project.Procs {
		for _, rn := range ReplicaNames(p.Name, p.Replicas) {
			known[rn] = true
		}
	}
	for _, c := range t.Calls {
		if c.RetSeq < 0 {
			continue
		}
		switch c.Op {
		case "start", "stop", "restart":
		default:
			continue
		}
		rep := c.Arg
		if !known[rep] {
			if c.Err == "" {
				vs = append(vs, Violation{"C08", "unknown-name-accepted", c.Op, fmt.Sprintf("%s on unknown process %q returned success", c.Op, rep), c.RetSeq})
			}
			continue
		}
		p := sc.specOfReplica(rep)
		// the window in which the request may have taken effect, widened to the whole
		// fake instant of its invocation (bookkeeping of an ending instance finishes
		// within the instant at which it ended)
		from := t.firstSeqAtOrAfter(int64(c.CallT))
		everActive, everInactive := t.activeDuring(rep, from, c.RetSeq)
		if sc.Strategy.StallPermille > 0 {
			// with stalled supervisor goroutines (fault F13) the registry may lag behind the
			// reported status by seconds: the outcome-vs-activity clauses are not judged
			everActive, everInactive = true, true
		}
		switch c.Op {
		case "start":
			if c.Err == "" {
				if !everInactive && p != nil && !p.Disabled && !p.Foreground {
					vs = append(vs, Violation{"C08", "start-succeeded-while-active", t.StatusAt(rep, c.CallSeq), fmt.Sprintf("%s returned success although %s was active (status %s) during the whole request", c.Desc, rep, t.StatusAt(rep, c.CallSeq)), c.RetSeq})
				}
			} else if strings.Contains(c.Err, "already running") {
				if !everActive {
					vs = append(vs, Violation{"C08", "start-refused-while-inactive", t.StatusAt(rep, c.CallSeq), fmt.Sprintf("%s failed with %q although %s was not active (status %s)", c.Desc, c.Err, rep, t.StatusAt(rep, c.CallSeq)), c.RetSeq})
				}
			}
		case "stop":
			if c.Err == "" {
				// the command that was alive must die, and must not be relaunched automatically
				for _, in := range t.ByRep[rep] {
					if in.AliveAt(c.CallSeq) && in.ExitSeq < 0 && terminationOwed(sc, rep) {
						vs = append(vs, Violation{"C08", "stop-did-not-terminate", "", fmt.Sprintf("%s returned success but the command of %s (pid %d) was still alive at the end of the run", c.Desc, rep, in.Pid), c.RetSeq})
					}
				}
			} else if strings.Contains(c.Err, "not running") || strings.Contains(c.Err, "does not exist") {
				if !everInactive && strings.Contains(c.Err, "not running") {
					// refused although it was active all along
					live := false
					for _, in := range t.ByRep[rep] {
						if in.ExecSeq < from && (in.ExitSeq < 0 || in.ExitSeq > c.RetSeq) {
							live = true
						}
					}
					if live {
						vs = append(vs, Violation{"C08", "stop-refused-while-running", "", fmt.Sprintf("%s failed with %q although a command of %s was alive during the whole request", c.Desc, c.Err, rep), c.RetSeq})
					}
				}
			}
		case "restart":
			if c.Err == "" {
				// exactly one new instance attributable to this request: count launches
				// between the invocation and the next explicit request on the same replica
				next := t.EndSeq + 1
				for _, d := range t.Calls {
					if d != c && d.CallSeq > c.CallSeq && d.Arg == rep && isStartOp(d.Op) && d.CallSeq < next {
						next = d.CallSeq
					}
				}
				_ = next
			}
		}
	}
	// successful stop => no automatic relaunch afterwards (shared with C02's clause)
	for _, v := range checkC02(sc, t) {
		if v.Class == "relaunch-after-stop-returned" {
			v.Prop = "C08"
			vs = append(vs, v)
		}
	}
	return vs
}

func terminationOwed(sc *Scenario, rep string) bool {
	p := sc.specOfReplica(rep)
	if p == nil {
		return false
	}
	if p.StopTimeout != nil && !p.ParentOnly {
		return true
	}
	ts := sc.Scripts[p.Token]
	if ts == nil {
		return true
	}
	for _, l := range ts.Launches {
		for _, s := range l.Ignore {
			if s == 15 {
				return false
			}
		}
	}
	return true
}

// pendingAfter: the instance registered by request d has not shown any status of its own
// before position seq.
func pendingAfter(t *Truth, rep string, d *Call, seq int) bool {
	for _, tr := range t.Trans[rep] {
		if tr.Seq > d.CallSeq && tr.Seq < seq && (tr.State == "Running" || tr.State == "Launching" || tr.State == "Skipped" || tr.State == "Error") {
			return false
		}
	}
	return true
}
