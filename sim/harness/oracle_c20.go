package harness

import (
	"fmt"
	"strings"
)

// ---- C20: concurrent API use is safe (panics and calls that never return; the data-race
// part is decided by the driver from the race detector's reports) ----

func checkC20(sc *Scenario, res *RunResult, t *Truth) []Violation {
	var vs []Violation
	// every API call must return: the run ends only after a generous fake-time bound
	for _, c := range t.Calls {
		if c.RetSeq >= 0 {
			continue
		}
		panicked := false
		for _, p := range res.Out.Panics {
			if strings.Contains(p.Task, "client:"+c.Client) || (c.Client == "main" && strings.Contains(p.Task, "final-shutdown")) {
				panicked = true
			}
		}
		if panicked {
			continue // reported as a panic by the generic oracle
		}
		vs = append(vs, Violation{"C20", "call-never-returned", c.Op + scaleOverlapTag(t), fmt.Sprintf("%s invoked by %s at t=%v had not returned when the run ended (fake time %v); blocked tasks: %v", c.Desc, c.Client, c.CallT, t.EndT, clipList(res.Out.Blocked, 6)), c.CallSeq})
	}
	if res.Out.HorizonHit || res.Out.StepLimit {
		vs = append(vs, Violation{"C20", "run-did-not-finish", fmt.Sprintf("horizon=%v steplimit=%v", res.Out.HorizonHit, res.Out.StepLimit) + scaleOverlapTag(t), fmt.Sprintf("the simulated run did not finish: blocked tasks: %v", clipList(res.Out.Blocked, 8)), t.EndSeq})
	}
	return vs
}

func clipList(xs []string, n int) []string {
	if len(xs) > n {
		return append(append([]string{}, xs[:n]...), fmt.Sprintf("... (%d more)", len(xs)-n))
	}
	return xs
}

// scaleOverlapTag marks histories in which a scale request overlapped a start / stop /
// restart request naming the same process: ScaleProcess renames and re-registers replicas
// in several unprotected steps, which is a recorded finding of its own.
func scaleOverlapTag(t *Truth) string {
	base := func(n string) string {
		if i := strings.LastIndexByte(n, '-'); i > 0 {
			return n[:i]
		}
		return n
	}
	for _, c := range t.Calls {
		if c.Op != "scale" || c.Err != "" && c.RetSeq >= 0 {
			continue
		}
		for _, d := range t.Calls {
			if d == c || (d.Op != "start" && d.Op != "stop" && d.Op != "restart" && d.Op != "scale") {
				continue
			}
			if base(d.Arg) != base(c.Arg) {
				continue
			}
			if d.CallSeq < c.RetSeq || c.RetSeq < 0 {
				if d.RetSeq < 0 || d.RetSeq > c.CallSeq {
					return " scale-overlap"
				}
			}
		}
	}
	return ""
}
