package harness

import (
	"regexp"
	"encoding/json"
	"fmt"
	"sort"
	"strings"

	"verifrt/simos"
)

// ---- C13: scaling ----

func parseScaleN(desc string) (int, bool) {
	i := strings.LastIndexByte(desc, ',')
	if i < 0 {
		return 0, false
	}
	n := 0
	_, err := fmt.Sscanf(strings.TrimSuffix(desc[i+1:], ")"), "%d", &n)
	return n, err == nil
}

func hasStr(xs []string, x string) bool {
	for _, y := range xs {
		if x == y {
			return true
		}
	}
	return false
}

func eqStrs(a, b []string) bool {
	if len(a) != len(b) {
		return false
	}
	for i := range a {
		if a[i] != b[i] {
			return false
		}
	}
	return true
}

// liveOf returns the command of the token that is alive at seq (nil if none)
func liveOf(t *Truth, token string, seq int) *Inst {
	var live *Inst
	for _, in := range t.ByToken[token] {
		if in.AliveAt(seq) {
			live = in
		}
	}
	return live
}

func envOf(in *Inst, key string) (string, bool) {
	val, ok := "", false
	for _, kv := range in.Env {
		if strings.HasPrefix(kv, key+"=") {
			val, ok = kv[len(key)+1:], true // the last one wins, as in exec
		}
	}
	return val, ok
}

func checkC13(sc *Scenario, res *RunResult, t *Truth) []Violation {
	var vs []Violation
	add := func(class, disc, msg string, seq int) {
		vs = append(vs, Violation{"C13", class, disc, msg, seq})
	}
	subj := sc.Project.Proc("s")
	if subj == nil {
		return nil
	}
	cur := subj.Replicas
	if cur < 1 {
		cur = 1
	}
	var others []string
	for _, p := range sc.Project.Procs {
		if p.Name != "s" {
			others = append(others, p.Name)
		}
	}
	if sc.Arm == "scalerace" {
		return checkC13Race(sc, t, cur, others)
	}
	var calls []*Call
	for _, c := range t.Calls {
		if c.Client == "scaler" {
			calls = append(calls, c)
		}
	}
	sort.Slice(calls, func(i, j int) bool { return calls[i].Idx < calls[j].Idx })
	prev := cur
	var last *Call // the last successful scale request
	var prevNames []string
	for _, c := range calls {
		if c.RetSeq < 0 {
			break // a request that never returns is C20's finding; nothing after it can be judged
		}
		switch c.Op {
		case "scale":
			n, okN := parseScaleN(c.Desc)
			if !okN {
				continue
			}
			names := ReplicaNames("s", cur)
			valid := hasStr(names, c.Arg) && n >= 1
			if !valid {
				if c.Err == "" {
					add("invalid-scale-accepted", fmt.Sprintf("n<1=%v", n < 1), fmt.Sprintf("%s succeeded although the request is invalid (current replicas of s: %d)", c.Desc, cur), c.RetSeq)
					return vs
				}
				for i := c.CallSeq; i <= c.RetSeq && i < len(t.Events); i++ {
					e := &t.Events[i]
					if e.Task == c.Task && (e.Kind == "os.exec" || e.Kind == "os.kill") {
						add("failed-scale-had-effects", e.Kind, fmt.Sprintf("%s failed (%s) but during it %s", c.Desc, c.Err, e.String()), e.Seq)
						return vs
					}
				}
				continue
			}
			if c.Err != "" {
				add("valid-scale-rejected", "", fmt.Sprintf("%s failed with %q although %s is a replica of s (%d replicas) and n>=1", c.Desc, c.Err, c.Arg, cur), c.RetSeq)
				return vs
			}
			prev, cur, last = cur, n, c
		case "audit":
			a, ok := c.Data.(*Audit)
			if !ok || a == nil {
				continue
			}
			want, bad := auditC13(sc, t, c, a, cur, others, last, add)
			if bad {
				return vs
			}
			where := "initially"
			if last != nil {
				where = "after " + last.Desc
			}
			for _, nm := range prevNames {
				if hasStr(want, nm) {
					continue
				}
				if e, asked := a.Gone[nm]; asked && e == "" {
					add("removed-replica-still-has-state", "", fmt.Sprintf("%s %s is not a process anymore but GetProcessState(%s) still answers", where, nm, nm), c.RetSeq)
					return vs
				}
			}
			prevNames = want
			if last == nil {
				continue
			}
			// what the request did to the commands, between its call and this audit
			lo, hi := last.CallSeq, c.CallSeq
			min := prev
			if cur < min {
				min = cur
			}
			mode := sc.Mode
			for k := 0; k < min; k++ {
				tok := fmt.Sprintf("s.%d", k)
				for _, in := range t.ByToken[tok] {
					for _, kl := range in.Kills {
						if kl.Seq >= lo && kl.Seq <= hi {
							add("surviving-replica-signalled", "", fmt.Sprintf("%s: replica number %d (pid %d) exists before and after but was sent signal %d", last.Desc, k, in.Pid, kl.Sig), kl.Seq)
							return vs
						}
					}
					if mode != "churn" && in.ExecSeq > lo && in.ExecSeq <= hi {
						add("surviving-replica-relaunched", "", fmt.Sprintf("%s: replica number %d exists before and after but was launched again (pid %d)", last.Desc, k, in.Pid), in.ExecSeq)
						return vs
					}
				}
				if before := liveOf(t, tok, lo); before != nil && mode == "forever" && !before.AliveAt(hi) {
					add("surviving-replica-ended", "", fmt.Sprintf("%s: replica number %d (pid %d) exists before and after but its command ended", last.Desc, k, before.Pid), before.ExitSeq)
					return vs
				}
			}
			for k := cur; k < prev; k++ {
				tok := fmt.Sprintf("s.%d", k)
				if in := liveOf(t, tok, hi); in != nil {
					add("removed-replica-alive", "", fmt.Sprintf("%s: replica number %d was removed but its command (pid %d) is still alive %v later", last.Desc, k, in.Pid, c.CallT-last.RetT), hi)
					return vs
				}
				for _, in := range t.ByToken[tok] {
					if in.ExecSeq > last.RetSeq && in.ExecSeq <= hi {
						add("removed-replica-relaunched", "", fmt.Sprintf("%s: replica number %d was removed but a command of it was launched afterwards (pid %d)", last.Desc, k, in.Pid), in.ExecSeq)
						return vs
					}
				}
			}
			for k := prev; k < cur; k++ {
				tok := fmt.Sprintf("s.%d", k)
				n := 0
				for _, in := range t.ByToken[tok] {
					if in.ExecSeq > lo && in.ExecSeq <= hi {
						n++
					}
				}
				if n != 1 && !(mode == "churn" && n > 1) {
					add("added-replica-launches", fmt.Sprintf("launches=%d", n), fmt.Sprintf("%s: added replica number %d was launched %d times", last.Desc, k, n), hi)
					return vs
				}
			}
			for _, o := range others {
				for _, in := range t.ByToken[o] {
					if in.ExecSeq > lo && in.ExecSeq <= hi {
						add("other-process-relaunched", "", fmt.Sprintf("%s: %s, another process, was launched (pid %d)", last.Desc, o, in.Pid), in.ExecSeq)
						return vs
					}
					for _, kl := range in.Kills {
						if kl.Seq >= lo && kl.Seq <= hi {
							add("other-process-signalled", "", fmt.Sprintf("%s: %s, another process, was sent signal %d", last.Desc, o, kl.Sig), kl.Seq)
							return vs
						}
					}
				}
			}
			last = nil
		}
	}
	return vs
}


// auditC13 compares one audit with the expected replica set of s and with the simulated
// process table; it reports whether a violation was added
func auditC13(sc *Scenario, t *Truth, c *Call, a *Audit, cur int, others []string, last *Call, add func(class, disc, msg string, seq int)) ([]string, bool) {
	mode := sc.Mode
			names := ReplicaNames("s", cur)
	want := append(append([]string{}, names...), others...)
	sort.Strings(want)
	where := "initially"
	if last != nil {
		where = "after " + last.Desc
	}
	if a.NamesErr != "" || a.StatesErr != "" {
		add("listing-failed", "", fmt.Sprintf("%s: listing the processes failed: %s %s", where, a.NamesErr, a.StatesErr), c.RetSeq)
		return want, true
	}
	got := append([]string{}, a.Names...)
	sort.Strings(got)
	if !eqStrs(got, want) {
		add("wrong-replica-set", fmt.Sprintf("want=%d got=%d", len(want), len(got)), fmt.Sprintf("%s the processes listed are %v; expected %v", where, got, want), c.RetSeq)
		return want, true
	}
	var stNames []string
	stBy := map[string]StateLite{}
	for _, st := range a.States {
		stNames = append(stNames, st.Name)
		stBy[st.Name] = st
	}
	sort.Strings(stNames)
	if !eqStrs(stNames, want) {
		add("wrong-state-set", "", fmt.Sprintf("%s the states reported are of %v; expected %v", where, stNames, want), c.RetSeq)
		return want, true
	}
	if a.FreshErr == "" && a.FreshNames != nil && !eqStrs(a.FreshNames, names) {
		add("names-differ-from-fresh-load", "", fmt.Sprintf("%s the replicas are named %v; a fresh load with replicas: %d names them %v", where, names, cur, a.FreshNames), c.RetSeq)
		return want, true
	}
	for k, nm := range names {
		tok := fmt.Sprintf("s.%d", k)
		inf := a.Infos[nm]
		if inf.Err != "" {
			add("replica-without-config", "", fmt.Sprintf("%s GetProcessInfo(%s) failed: %s", where, nm, inf.Err), c.RetSeq)
			return want, true
		}
		if inf.Name != "s" || inf.ReplicaName != nm || inf.ReplicaNum != k || inf.Replicas != cur {
			add("replica-config-inconsistent", fmt.Sprintf("name=%v num=%v count=%v", inf.ReplicaName == nm, inf.ReplicaNum == k, inf.Replicas == cur),
				fmt.Sprintf("%s the configuration of %s says name=%q replica_name=%q replica_num=%d replicas=%d; expected s/%s/%d/%d", where, nm, inf.Name, inf.ReplicaName, inf.ReplicaNum, inf.Replicas, nm, k, cur), c.RetSeq)
			return want, true
		}
		if fr, ok := a.FreshInfos[nm]; ok && a.FreshErr == "" {
			// "the same set a fresh load with replicas: n would produce"
			cmp := func(x InfoLite) string {
				b, _ := json.Marshal(struct {
					C, E, W string
					A       []string
					R, L    *ProbeLite
				}{x.Command, x.Executable, x.WorkingDir, x.Args, x.Readiness, x.Liveness})
				return string(b)
			}
			if g, w := stripTmp(cmp(inf)), stripTmp(cmp(fr)); g != w {
				add("replica-config-differs-from-fresh-load", "", fmt.Sprintf("%s the configuration of %s is %s; a fresh load with replicas: %d gives it %s", where, nm, g, cur, w), c.RetSeq)
				return want, true
			}
		}
		if ps := sc.Project.Proc("s"); ps != nil && ps.Readiness != nil && (inf.Readiness == nil || !hasStr(strings.Fields(inf.Readiness.Exec), tok)) {
			got := "<none>"
			if inf.Readiness != nil {
				got = inf.Readiness.Exec
			}
			add("replica-config-not-rendered", "probe", fmt.Sprintf("%s the readiness probe of %s runs %q: not rendered for replica number %d", where, nm, got, k), c.RetSeq)
			return want, true
		}
		if !hasStr(strings.Fields(inf.Command+" "+strings.Join(inf.Args, " ")), tok) {
			add("replica-config-not-rendered", "", fmt.Sprintf("%s the command of %s is %q %q: not rendered for replica number %d", where, nm, inf.Command, inf.Args, k), c.RetSeq)
			return want, true
		}
		live := liveOf(t, tok, c.CallSeq)
		st := stBy[nm]
		var lastRun *Inst // the most recent command of this replica number
		for _, in := range t.ByToken[tok] {
			if in.ExecSeq < c.CallSeq {
				lastRun = in
			}
		}
		// the audit is not atomic: a command that starts or ends at the very instant of the
		// audit may be seen before or after
		busy := false
		for _, in := range t.ByToken[tok] {
			if (in.ExecT >= c.CallT && in.ExecT <= c.RetT) || (in.ExitSeq >= 0 && in.ExitT >= c.CallT && in.ExitT <= c.RetT) {
				busy = true
			}
		}
		switch {
		case busy:
		case live != nil:
			if st.Status != "Running" || st.Pid != live.Pid {
				add("replica-state-not-its-own", fmt.Sprintf("status=%s", st.Status), fmt.Sprintf("%s replica %s runs as pid %d but its state says %s pid %d", where, nm, live.Pid, st.Status, st.Pid), c.RetSeq)
				return want, true
			}
		case mode == "forever" || lastRun == nil:
			add("replica-not-running", "", fmt.Sprintf("%s replica %s (number %d) has no live command; it is reported %s", where, nm, k, st.Status), c.RetSeq)
			return want, true
		case mode == "finite":
			if st.Status != "Completed" || st.ExitCode != lastRun.Code {
				add("replica-state-not-its-own", fmt.Sprintf("status=%s", st.Status), fmt.Sprintf("%s the command of replica %s ended with code %d but its state says %s, exit code %d", where, nm, lastRun.Code, st.Status, st.ExitCode), c.RetSeq)
				return want, true
			}
		default: // churn: between two launches
			if st.Status != "Restarting" && st.Status != "Running" {
				add("replica-state-not-its-own", fmt.Sprintf("status=%s", st.Status), fmt.Sprintf("%s replica %s (restart: always) is between two launches but its state says %s", where, nm, st.Status), c.RetSeq)
				return want, true
			}
		}
		for _, in := range t.ByToken[tok] {
			if v, _ := envOf(in, "PC_REPLICA_NUM"); v != fmt.Sprint(k) {
				add("replica-env-not-its-own", "", fmt.Sprintf("%s a command of replica number %d was launched with PC_REPLICA_NUM=%q", where, k, v), in.ExecSeq)
				return want, true
			}
		}
		if e, bad := a.LogErrs[nm]; bad {
			add("replica-without-log", "", fmt.Sprintf("%s GetProcessLog(%s) failed: %s", where, nm, e), c.RetSeq)
			return want, true
		}
		own := false
		for _, l := range a.Logs[nm] {
			if strings.Contains(l, "I am "+tok+" ") {
				own = true
			} else if strings.Contains(l, "I am s.") {
				add("log-of-another-replica", "", fmt.Sprintf("%s the log of %s (replica %d) holds the line %q", where, nm, k, l), c.RetSeq)
				return want, true
			}
		}
		if !own && lastRun != nil && len(lastRun.Writes) > 0 && lastRun.Writes[0].Seq < c.CallSeq-50 && t.Events[c.CallSeq].T > t.Events[lastRun.Writes[0].Seq].T {
			add("replica-log-lost", "", fmt.Sprintf("%s the log of %s does not hold the line its command (pid %d) wrote: %q", where, nm, lastRun.Pid, a.Logs[nm]), c.RetSeq)
			return want, true
		}
	}
	return want, false
}

// checkC13Race: two scale requests issued at the same instant by two clients; results and
// the final replica set must be those of one of the two serial orders
func checkC13Race(sc *Scenario, t *Truth, r0 int, others []string) []Violation {
	var vs []Violation
	add := func(class, disc, msg string, seq int) {
		vs = append(vs, Violation{"C13", class, disc, msg, seq})
	}
	var x [2]*Call
	var final *Call
	for _, c := range t.Calls {
		switch {
		case c.Client == "x1" && c.Op == "scale":
			x[0] = c
		case c.Client == "x2" && c.Op == "scale":
			x[1] = c
		case c.Client == "scaler" && c.Op == "audit":
			final = c
		}
	}
	if x[0] == nil || x[1] == nil || final == nil || x[0].RetSeq < 0 || x[1].RetSeq < 0 || final.RetSeq < 0 || x[0].RetSeq > final.CallSeq || x[1].RetSeq > final.CallSeq {
		return nil
	}
	a, ok := final.Data.(*Audit)
	if !ok || a == nil {
		return nil
	}
	type outcome struct {
		ok    [2]bool
		count int
		low   int
	}
	serial := func(first int) outcome {
		o := outcome{count: r0, low: r0}
		for _, i := range []int{first, 1 - first} {
			n, _ := parseScaleN(x[i].Desc)
			if n >= 1 && hasStr(ReplicaNames("s", o.count), x[i].Arg) {
				o.ok[i] = true
				o.count = n
				if n < o.low {
					o.low = n
				}
			}
		}
		return o
	}
	got := [2]bool{x[0].Err == "", x[1].Err == ""}
	nS := 0
	for _, n := range a.Names {
		if n == "s" || strings.HasPrefix(n, "s-") {
			nS++
		}
	}
	var match *outcome
	for first := 0; first < 2; first++ {
		o := serial(first)
		if o.ok == got && o.count == nS {
			match = &o
			break
		}
	}
	if match == nil {
		add("concurrent-scales-not-serialisable", "", fmt.Sprintf("%s -> %q and %s -> %q issued together on %d replicas left %d replicas %v: not the outcome of either order (%+v / %+v)",
			x[0].Desc, x[0].Err, x[1].Desc, x[1].Err, r0, nS, a.Names, serial(0), serial(1)), final.RetSeq)
		return vs
	}
	last := x[0]
	if x[1].RetSeq > last.RetSeq {
		last = x[1]
	}
	if _, bad := auditC13(sc, t, final, a, match.count, others, last, add); bad {
		return vs
	}
	lo := x[0].CallSeq
	if x[1].CallSeq < lo {
		lo = x[1].CallSeq
	}
	for k := 0; k < match.low; k++ {
		tok := fmt.Sprintf("s.%d", k)
		for _, in := range t.ByToken[tok] {
			for _, kl := range in.Kills {
				if kl.Seq >= lo && kl.Seq <= final.CallSeq {
					add("surviving-replica-signalled", "", fmt.Sprintf("replica number %d (pid %d) exists throughout but was sent signal %d", k, in.Pid, kl.Sig), kl.Seq)
					return vs
				}
			}
			if sc.Mode != "churn" && in.ExecSeq > lo && in.ExecSeq <= final.CallSeq {
				add("surviving-replica-relaunched", "", fmt.Sprintf("replica number %d exists throughout but was launched again (pid %d)", k, in.Pid), in.ExecSeq)
				return vs
			}
		}
	}
	return vs
}

func genC13(r *R, sc *Scenario, tier string) {
	spec := &ProjectSpec{}
	sc.Project = spec
	sc.Scripts = map[string]*TokenScript{}
	r0 := Pick(r, 0, 1, 1, 2, 2, 3, 4, 9, 10, 11)
	if tier == "thorough" && r.P(15) {
		r0 = Pick(r, 98, 99, 100, 101)
	}
	s := &ProcSpec{Name: "s", Token: "s.{{.PC_REPLICA_NUM}}", Replicas: r0}
	if r.P(500) {
		// (its exec probe, which has no directory of its own, inherits this one)
		sc.Dirs = append(sc.Dirs, "d1")
		s.WorkingDir = "d1"
	}
	if r.P(300) {
		s.Description = "replica {{.PC_REPLICA_NUM}} of s"
	}
	if r.P(250) {
		// a probe of its own per replica
		s.Readiness = &ProbeSpec{Token: "s.{{.PC_REPLICA_NUM}}", Period: iptr(Pick(r, 1, 2)), FailureThreshold: iptr(50)}
		if r.P(400) {
			s.Readiness.InitialDelay = iptr(Pick(r, 3, 8, 20)) // replicas are removed while their prober still waits
		}
		sc.Scripts["simprobe:s.*"] = &TokenScript{Launches: []simos.Script{{LifeMs: 10, Exit: 0}}}
	}
	sc.Mode = Pick(r, "forever", "forever", "forever", "finite", "churn")
	life, exit := -1, 0
	switch sc.Mode {
	case "finite":
		life, exit = Pick(r, 200, 400), Pick(r, 0, 0, 3)
	case "churn":
		life, exit = Pick(r, 600, 900, 1300), Pick(r, 0, 1)
		s.Restart = "always"
		if r.P(500) {
			s.Backoff = iptr(Pick(r, 1, 2))
		}
	}
	sc.Scripts["s.*"] = &TokenScript{Launches: []simos.Script{{LifeMs: life, Exit: exit, TermLagMs: Pick(r, 0, 0, 10, 100),
		ExitOnSig: Pick(r, 0, 143), Out: []simos.OutChunk{{AtMs: Pick(r, 0, 5, 50), Stream: 1, Data: "I am %T now\n"}}}}}
	nb := r.Range(0, 2)
	for i := 0; i < nb; i++ {
		b := &ProcSpec{Name: fmt.Sprintf("b%d", i), Token: fmt.Sprintf("b%d", i)}
		life := -1
		if r.P(300) {
			life = Pick(r, 100, 500)
		}
		sc.Scripts[b.Token] = &TokenScript{Launches: []simos.Script{{LifeMs: life, Out: []simos.OutChunk{{AtMs: 1, Stream: 1, Data: "I am %T now\n"}}}}}
		if r.P(300) {
			b.Restart = "on_failure"
		}
		spec.Procs = append(spec.Procs, b)
		if r.P(400) {
			if s.DependsOn == nil {
				s.DependsOn = map[string]string{}
			}
			s.DependsOn[b.Name] = Pick(r, "process_started", "process_started", "process_completed")
			if s.DependsOn[b.Name] == "process_completed" && life < 0 {
				s.DependsOn[b.Name] = "process_started"
			}
		}
	}
	spec.Procs = append(spec.Procs, s)
	cur := r0
	if cur < 1 {
		cur = 1
	}
	var ops []Op
	at := 1500
	ops = append(ops, Op{AtMs: at, Op: "audit", Arg: "s", N: cur})
	nops := r.Range(1, 5)
	targets := []int{1, 1, 2, 2, 3, 3, 4, 5, 9, 10, 10, 11, 12}
	if r0 >= 98 {
		targets = []int{1, 9, 10, 98, 99, 100, 100, 101}
		nops = r.Range(1, 3)
	}
	for i := 0; i < nops; i++ {
		at += Pick(r, 1500, 2000, 2500)
		names := ReplicaNames("s", cur)
		name := names[r.Intn(len(names))]
		n := targets[r.Intn(len(targets))]
		switch {
		case r.P(100):
			n = cur // to the current value
		case r.P(120):
			n = Pick(r, 0, -1, -7)
		case r.P(120):
			name = Pick(r, "nosuch", "s-", fmt.Sprintf("s-%d", cur+3), "S")
			if cur > 1 && r.P(500) {
				name = "s" // the bare name is not a replica's name while there are several
			}
			if hasStr(names, name) {
				name = "nosuch"
			}
		}
		ops = append(ops, Op{AtMs: at, Op: "scale", Arg: name, N: n})
		old := names
		if n >= 1 && hasStr(names, name) {
			cur = n
		}
		var gone []string
		for _, o := range old {
			if !hasStr(ReplicaNames("s", cur), o) {
				gone = append(gone, o)
			}
		}
		at += 1000
		ops = append(ops, Op{AtMs: at, Op: "audit", Arg: "s", N: cur, Args: gone})
	}
	if r.P(250) {
		// two scale requests at the same instant; the outcome must be that of one of the two orders
		sc.Arm = "scalerace"
		cur = r0
		if cur < 1 {
			cur = 1
		}
		names := ReplicaNames("s", cur)
		ops = []Op{{AtMs: 1500, Op: "audit", Arg: "s", N: cur}}
		for i := 0; i < 2; i++ {
			n := targets[r.Intn(len(targets))]
			if r.P(100) {
				n = Pick(r, 0, -1)
			}
			sc.Clients = append(sc.Clients, Client{Name: fmt.Sprintf("x%d", i+1), Ops: []Op{{AtMs: 2000, Op: "scale", Arg: names[r.Intn(len(names))], N: n}}})
		}
		at = 4000
		ops = append(ops, Op{AtMs: at, Op: "audit", Arg: "s"})
	}
	sc.Clients = append(sc.Clients, Client{Name: "scaler", Ops: ops})
	if r.P(400) {
		var pops []Op
		for x := 700; x < at; x += Pick(r, 300, 700, 1100) {
			pops = append(pops, Op{AtMs: x, Op: Pick(r, "states", "projstate", "names")})
		}
		sc.Clients = append(sc.Clients, Client{Name: "poll", Ops: pops})
	}
	sc.Strategy = genStrategy(r)
	sc.Strategy.StallPermille = 0
	sc.IterMode = Pick(r, 0, 0, 1, 2, 3)
	sc.IterRot = r.Intn(7)
	sc.RunForMs = at + 1500
	sc.QuietMs = 1000
	if sc.Arm == "" {
		sc.Arm = "scale"
	}
}

var tmpRunDir = regexp.MustCompile(`/[^" ]*/simrun-[0-9]+`)

// stripTmp removes the run's scratch directory from a text (it differs from run to run)
func stripTmp(s string) string { return tmpRunDir.ReplaceAllString(s, "@TMP@") }
