package harness

import (
	"fmt"
	"sort"
	"strings"

	"verifrt/simos"
	"verifrt/simsync"
)

// ---- scenario model: the generator's own description of the project (the oracles use
// this, never the loader's output, as the statement of intent) ----

type ProbeSpec struct {
	Token            string `json:"token"`
	InitialDelay     *int   `json:"initial_delay,omitempty"`
	Period           *int   `json:"period,omitempty"`
	Timeout          *int   `json:"timeout,omitempty"`
	SuccessThreshold *int   `json:"success_threshold,omitempty"`
	FailureThreshold *int   `json:"failure_threshold,omitempty"`
	HTTP             *HTTPSpec `json:"http,omitempty"` // an http_get probe instead of the exec one (never run: real sockets)
}

type HTTPSpec struct {
	Host    string `json:"host,omitempty"`
	Scheme  string `json:"scheme,omitempty"`
	Path    string `json:"path,omitempty"`
	Port    string `json:"port,omitempty"`
	NumPort *int   `json:"num_port,omitempty"`
}

type ProcSpec struct {
	Name          string            `json:"name"`
	Token         string            `json:"token"` // command is "simproc <token>"; may contain {{.PC_REPLICA_NUM}}
	Replicas      int               `json:"replicas,omitempty"`
	DependsOn     map[string]string `json:"depends_on,omitempty"` // dep name -> condition
	Restart       string            `json:"restart,omitempty"`
	Backoff       *int              `json:"backoff,omitempty"`
	MaxRestarts   int               `json:"max_restarts,omitempty"`
	ExitOnEnd     bool              `json:"exit_on_end,omitempty"`
	ExitOnSkipped bool              `json:"exit_on_skipped,omitempty"`
	Disabled      bool              `json:"disabled,omitempty"`
	Foreground    bool              `json:"foreground,omitempty"`
	IsDaemon      bool              `json:"is_daemon,omitempty"`
	LaunchTimeout int               `json:"launch_timeout,omitempty"`
	Namespace     string            `json:"namespace,omitempty"`
	ReadyLine     string            `json:"ready_line,omitempty"`
	Readiness     *ProbeSpec        `json:"readiness,omitempty"`
	Liveness      *ProbeSpec        `json:"liveness,omitempty"`
	WorkingDir    string            `json:"working_dir,omitempty"` // relative to the run's temp dir unless absolute
	Env           []string          `json:"env,omitempty"`
	LogLocation   string            `json:"log_location,omitempty"`
	Description   string            `json:"description,omitempty"`
	Vars          map[string]string `json:"vars,omitempty"`
	// shutdown
	Signal      *int   `json:"signal,omitempty"`
	ParentOnly  bool   `json:"parent_only,omitempty"`
	StopTimeout *int   `json:"stop_timeout,omitempty"`
	StopCmd     string `json:"stop_cmd,omitempty"` // token: command is "simstop <token>"
	UseEntry    bool   `json:"use_entry,omitempty"` // use entrypoint: [simproc, token] instead of command
	CmdTail     string `json:"cmd_tail,omitempty"`  // appended to the command line after the token (C17: $VAR forms)
	RawYAML     string `json:"raw_yaml,omitempty"`  // lines written verbatim into the process's body
	Exe         string `json:"exe,omitempty"`       // with UseEntry: the executable ("simproc" or its alias "simprocB")
}

type ProjectSpec struct {
	Procs       []*ProcSpec       `json:"procs"`
	Env         []string          `json:"env,omitempty"`
	EnvCmds     map[string]string `json:"env_cmds,omitempty"` // var -> token ("simenv <token>")
	Vars        map[string]string `json:"vars,omitempty"`
	LogLocation string            `json:"log_location,omitempty"`
	LogLength   int               `json:"log_length,omitempty"`
	LogNoJSON   bool              `json:"log_no_json,omitempty"`
	LogFlush    bool              `json:"log_flush,omitempty"`
	IsStrict    bool              `json:"is_strict,omitempty"`
	NoExpand    bool              `json:"no_expand,omitempty"` // disable_env_expansion: true
}

func (p *ProjectSpec) Proc(name string) *ProcSpec {
	for _, q := range p.Procs {
		if q.Name == name {
			return q
		}
	}
	return nil
}

type TokenScript struct {
	Launches []simos.Script `json:"launches"`
}

type Op struct {
	AtMs int    `json:"at_ms"`
	Op   string `json:"op"` // start stop restart stopmany scale shutdown update state states info log ...
	Arg  string `json:"arg,omitempty"`
	Args []string `json:"args,omitempty"`
	N    int    `json:"n,omitempty"`
	M    int    `json:"m,omitempty"`
	Rest bool   `json:"rest,omitempty"` // through the REST client
}

type Client struct {
	Name string `json:"name"`
	Ops  []Op   `json:"ops"`
}

type Scenario struct {
	Prop    string                  `json:"prop"`
	Seed    uint64                  `json:"seed"`
	Arm     string                  `json:"arm,omitempty"`
	Mode    string                  `json:"mode,omitempty"` // property-specific variant of the arm
	Mode2   string                  `json:"mode2,omitempty"` // C19: which workload runs through REST
	Project *ProjectSpec            `json:"project"`
	LogBuf  *LogBufSpec             `json:"logbuf,omitempty"` // C18: workload on a bare log buffer instead of a project
	Updates []*ProjectSpec          `json:"updates,omitempty"` // successive configurations for update ops (index = Op.N)
	Files   map[string]string       `json:"files,omitempty"`   // extra files (override yaml, .env); the main file is rendered from Project
	Extra   []string                `json:"extra_files,omitempty"`
	Environ map[string]string       `json:"environ,omitempty"`
	Dirs    []string                `json:"dirs,omitempty"`
	Scripts map[string]*TokenScript `json:"scripts"`
	Clients []Client                `json:"clients,omitempty"`
	WS      []WSFollower            `json:"ws,omitempty"` // websocket log followers (need rest=true)
	// options
	OrderedShutdown bool     `json:"ordered_shutdown,omitempty"`
	ViaCmd          bool     `json:"via_cmd,omitempty"` // run through the binary's headless entry point (installs its signal handler)
	StallClients    bool     `json:"stall_clients,omitempty"` // fault F13 also applies to the tasks that issue the requests
	ForceStallTask  string   `json:"force_stall_task,omitempty"` // F13 placed on purpose: this task is set aside ...
	ForceStallStep  int      `json:"force_stall_step,omitempty"` // ... before its n-th step ...
	ForceStallMs    int      `json:"force_stall_ms,omitempty"`   // ... for so long
	StallSweep      int      `json:"stall_sweep,omitempty"`      // the worker runs the scenario once per step 1..n
	Keep            bool     `json:"keep_project,omitempty"` // with ViaCmd: as "up --keep-project" does (the binary stays until the project is shut down)
	ToRun           []string `json:"to_run,omitempty"`
	NoDeps          bool     `json:"no_deps,omitempty"`
	Namespaces      []string `json:"namespaces,omitempty"`
	// run control
	RunForMs    int              `json:"run_for_ms"`   // main waits this long for Run() to return by itself
	EndShutdown bool             `json:"end_shutdown"` // then requests a shutdown and waits BoundMs for Run()
	BoundMs     int              `json:"bound_ms"`
	QuietMs     int              `json:"quiet_ms,omitempty"` // quiet period before the final observations
	Strategy    simsync.Strategy `json:"strategy"`
	IterMode    int              `json:"iter_mode,omitempty"`
	IterRot     int              `json:"iter_rot,omitempty"`
	Observe     bool             `json:"observe"` // observer task at stable points
	LoadOnly    int              `json:"load_only,omitempty"` // C16: load the files this many times instead of running the project
	Rest        bool             `json:"rest,omitempty"` // build the REST server and the bundled client over the runner; ops with rest=true go through them
	// injection-point sweep: make client Clients[SweepClient] op 0 runnable at scheduler step SweepStep
	SweepStep int `json:"sweep_step,omitempty"`
}

// ---- YAML rendering ----

func q(s string) string {
	return `"` + strings.NewReplacer(`\`, `\\`, `"`, `\"`, "\n", `\n`).Replace(s) + `"`
}

func renderProbe(b *strings.Builder, key string, p *ProbeSpec) {
	if p.HTTP != nil {
		fmt.Fprintf(b, "    %s:\n      http_get:\n", key)
		kv := func(k, v string) {
			if v != "" {
				fmt.Fprintf(b, "        %s: %s\n", k, q(v))
			}
		}
		kv("host", p.HTTP.Host)
		kv("scheme", p.HTTP.Scheme)
		kv("path", p.HTTP.Path)
		kv("port", p.HTTP.Port)
		if p.HTTP.NumPort != nil {
			fmt.Fprintf(b, "        num_port: %d\n", *p.HTTP.NumPort)
		}
		if p.HTTP.Host == "" && p.HTTP.Scheme == "" && p.HTTP.Path == "" && p.HTTP.Port == "" && p.HTTP.NumPort == nil {
			fmt.Fprintf(b, "        path: \"/\"\n")
		}
	} else {
		fmt.Fprintf(b, "    %s:\n      exec:\n        command: %s\n", key, q("simprobe "+p.Token))
	}
	opt := func(k string, v *int) {
		if v != nil {
			fmt.Fprintf(b, "      %s: %d\n", k, *v)
		}
	}
	opt("initial_delay_seconds", p.InitialDelay)
	opt("period_seconds", p.Period)
	opt("timeout_seconds", p.Timeout)
	opt("success_threshold", p.SuccessThreshold)
	opt("failure_threshold", p.FailureThreshold)
}

func sortedKeys[V any](m map[string]V) []string {
	ks := make([]string, 0, len(m))
	for k := range m {
		ks = append(ks, k)
	}
	sort.Strings(ks)
	return ks
}

// Render produces the process-compose YAML for the project. tmp is the run's temp dir.
func (p *ProjectSpec) Render(tmp string) string {
	var b strings.Builder
	b.WriteString("version: \"0.5\"\n")
	if p.IsStrict {
		b.WriteString("is_strict: true\n")
	}
	if p.NoExpand {
		b.WriteString("disable_env_expansion: true\n")
	}
	if p.LogLocation != "" {
		fmt.Fprintf(&b, "log_location: %s\n", q(absIn(tmp, p.LogLocation)))
	}
	if p.LogLength != 0 {
		fmt.Fprintf(&b, "log_length: %d\n", p.LogLength)
	}
	if p.LogNoJSON || p.LogFlush {
		b.WriteString("log_configuration:\n")
		if p.LogNoJSON {
			b.WriteString("  disable_json: true\n  no_color: true\n  no_metadata: true\n  fields_order: [\"message\"]\n")
		}
		if p.LogFlush {
			b.WriteString("  flush_each_line: true\n")
		}
	}
	if len(p.Env) > 0 {
		b.WriteString("environment:\n")
		for _, e := range p.Env {
			fmt.Fprintf(&b, "  - %s\n", q(e))
		}
	}
	if len(p.EnvCmds) > 0 {
		b.WriteString("env_cmds:\n")
		for _, k := range sortedKeys(p.EnvCmds) {
			fmt.Fprintf(&b, "  %s: %s\n", k, q("simenv "+p.EnvCmds[k]))
		}
	}
	if len(p.Vars) > 0 {
		b.WriteString("vars:\n")
		for _, k := range sortedKeys(p.Vars) {
			fmt.Fprintf(&b, "  %s: %s\n", k, q(p.Vars[k]))
		}
	}
	b.WriteString("processes:\n")
	for _, pr := range p.Procs {
		fmt.Fprintf(&b, "  %s:\n", pr.Name)
		b.WriteString(pr.RawYAML)
		if pr.UseEntry {
			exe := pr.Exe
			if exe == "" {
				exe = "simproc"
			}
			fmt.Fprintf(&b, "    entrypoint: [%s, %s]\n", q(exe), q(pr.Token))
		} else {
			cmd := "simproc " + pr.Token
			if pr.CmdTail != "" {
				cmd += " " + pr.CmdTail
			}
			fmt.Fprintf(&b, "    command: %s\n", q(cmd))
		}
		if pr.Replicas != 0 {
			fmt.Fprintf(&b, "    replicas: %d\n", pr.Replicas)
		}
		if pr.Disabled {
			b.WriteString("    disabled: true\n")
		}
		if pr.Foreground {
			b.WriteString("    is_foreground: true\n")
		}
		if pr.IsDaemon {
			b.WriteString("    is_daemon: true\n")
		}
		if pr.LaunchTimeout != 0 {
			fmt.Fprintf(&b, "    launch_timeout_seconds: %d\n", pr.LaunchTimeout)
		}
		if pr.Namespace != "" {
			fmt.Fprintf(&b, "    namespace: %s\n", q(pr.Namespace))
		}
		if pr.Description != "" {
			fmt.Fprintf(&b, "    description: %s\n", q(pr.Description))
		}
		if pr.ReadyLine != "" {
			fmt.Fprintf(&b, "    ready_log_line: %s\n", q(pr.ReadyLine))
		}
		if pr.WorkingDir != "" {
			fmt.Fprintf(&b, "    working_dir: %s\n", q(absIn(tmp, pr.WorkingDir)))
		}
		if pr.LogLocation != "" {
			fmt.Fprintf(&b, "    log_location: %s\n", q(absIn(tmp, pr.LogLocation)))
		}
		if len(pr.Env) > 0 {
			b.WriteString("    environment:\n")
			for _, e := range pr.Env {
				fmt.Fprintf(&b, "      - %s\n", q(e))
			}
		}
		if len(pr.Vars) > 0 {
			b.WriteString("    vars:\n")
			for _, k := range sortedKeys(pr.Vars) {
				fmt.Fprintf(&b, "      %s: %s\n", k, q(pr.Vars[k]))
			}
		}
		if len(pr.DependsOn) > 0 {
			b.WriteString("    depends_on:\n")
			for _, k := range sortedKeys(pr.DependsOn) {
				fmt.Fprintf(&b, "      %s:\n        condition: %s\n", k, pr.DependsOn[k])
			}
		}
		if pr.Restart != "" || pr.Backoff != nil || pr.MaxRestarts != 0 || pr.ExitOnEnd || pr.ExitOnSkipped {
			b.WriteString("    availability:\n")
			if pr.Restart != "" {
				fmt.Fprintf(&b, "      restart: %s\n", q(pr.Restart))
			}
			if pr.Backoff != nil {
				fmt.Fprintf(&b, "      backoff_seconds: %d\n", *pr.Backoff)
			}
			if pr.MaxRestarts != 0 {
				fmt.Fprintf(&b, "      max_restarts: %d\n", pr.MaxRestarts)
			}
			if pr.ExitOnEnd {
				b.WriteString("      exit_on_end: true\n")
			}
			if pr.ExitOnSkipped {
				b.WriteString("      exit_on_skipped: true\n")
			}
		}
		if pr.Signal != nil || pr.ParentOnly || pr.StopTimeout != nil || pr.StopCmd != "" {
			b.WriteString("    shutdown:\n")
			if pr.StopCmd != "" {
				fmt.Fprintf(&b, "      command: %s\n", q("simstop "+pr.StopCmd))
			}
			if pr.Signal != nil {
				fmt.Fprintf(&b, "      signal: %d\n", *pr.Signal)
			}
			if pr.StopTimeout != nil {
				fmt.Fprintf(&b, "      timeout_seconds: %d\n", *pr.StopTimeout)
			}
			if pr.ParentOnly {
				b.WriteString("      parent_only: true\n")
			}
		}
		if pr.Readiness != nil {
			renderProbe(&b, "readiness_probe", pr.Readiness)
		}
		if pr.Liveness != nil {
			renderProbe(&b, "liveness_probe", pr.Liveness)
		}
	}
	return b.String()
}

func absIn(tmp, p string) string {
	if strings.HasPrefix(p, "/") {
		return p
	}
	return tmp + "/" + p
}

// ReplicaNames lists the replica names a process spec expands to.
func ReplicaNames(name string, replicas int) []string {
	if replicas <= 1 {
		return []string{name}
	}
	w := len(fmt.Sprint(replicas - 1))
	// width is 1+floor(log10(replicas)) per the documentation of replica naming
	w = len(fmt.Sprint(replicas))
	if isPow10(replicas) {
		w = len(fmt.Sprint(replicas))
	}
	_ = w
	width := 1
	for r := replicas; r >= 10; r /= 10 {
		width++
	}
	var out []string
	for i := 0; i < replicas; i++ {
		out = append(out, fmt.Sprintf("%s-%0*d", name, width, i))
	}
	return out
}

func isPow10(n int) bool {
	for n > 1 {
		if n%10 != 0 {
			return false
		}
		n /= 10
	}
	return n == 1
}

func iptr(i int) *int { return &i }
