package harness

import (
	"fmt"
	"sort"
	"strings"
	"time"

	"verifrt/simlog"
)

// Truth is the ground truth reconstructed from the event log: every simulated command
// (exec/exit/reap/signals), every status transition the system under test made, every API
// call with its outcome, the snapshots the observer took, and Run()'s return.

type KillEv struct {
	Task int
	Seq  int
	T   time.Duration
	Sig int
	Tgt int // pid or -pgid as passed to kill(2)
}

type Inst struct {
	ExecTask int   // task that launched it
	Kind    string // simproc simprobe simstop simenv
	Token   string
	Replica string // replica name for simproc tokens ("" if unknown)
	Pid     int
	Pgid    int
	Ppid    int // 0 for top-level commands
	ExecSeq int
	ExitSeq int // -1 while alive at the end of the log
	ReapSeq int
	ExecT   time.Duration
	ExitT   time.Duration
	Code    int
	BySig   int // 0: script
	Args    string
	Dir     string
	Env     []string
	Kills   []KillEv
	Writes  []WriteEv
}

type WriteEv struct {
	Seq    int
	Stream int
	Text   string
}

func (i *Inst) AliveAt(seq int) bool {
	return i.ExecSeq <= seq && (i.ExitSeq < 0 || i.ExitSeq > seq)
}

type Trans struct {
	Seq   int
	T     time.Duration
	State string
	Task  int
}

type Call struct {
	Task    int
	Client  string
	Idx     int
	Desc    string
	Op, Arg string
	CallSeq int
	RetSeq  int // -1: never returned
	CallT   time.Duration
	RetT    time.Duration
	Err     string
	Data    any
}

type SnapEv struct {
	Seq    int
	T      time.Duration
	Stable bool
	Final  bool
	States map[string]StateLite
	Err    string
}

type Truth struct {
	Events  []simlog.Event
	Insts   []*Inst
	ByPid   map[int]*Inst
	ByRep   map[string][]*Inst
	ByToken map[string][]*Inst
	Trans   map[string][]Trans
	Calls   []*Call
	Snaps   []*SnapEv
	Final   *SnapEv
	RunCall int
	RunRet  int // seq of run.ret or -1
	RunCode int
	RunErr  string
	RunRetT time.Duration
	Hang    bool
	EndSeq  int
	EndT    time.Duration
	ExecFails map[string][]int // replica -> log positions of failed launches
	Unknown []string // commands the harness could not map to a script
	Order   []string
	LoadErr string
}

// tokenReplica maps a simproc token to its replica name: tokens are "<name>" or
// "<name>.<num>" (rendered from the PC_REPLICA_NUM template); repl gives the current
// replica count per process name.
func tokenReplica(tok string, repl func(name string) int) string {
	if i := strings.LastIndexByte(tok, '.'); i > 0 {
		name, num := tok[:i], tok[i+1:]
		n := 0
		ok := num != ""
		for _, c := range num {
			if c < '0' || c > '9' {
				ok = false
				break
			}
			n = n*10 + int(c-'0')
		}
		if ok {
			r := repl(name)
			names := ReplicaNames(name, r)
			if n < len(names) {
				return names[n]
			}
			return fmt.Sprintf("%s#%d", name, n)
		}
	}
	return tok
}

func BuildTruth(sc *Scenario, log *simlog.Log) *Truth {
	t := &Truth{Events: log.Events, ByPid: map[int]*Inst{}, ByRep: map[string][]*Inst{}, ByToken: map[string][]*Inst{}, Trans: map[string][]Trans{}, RunRet: -1, RunCall: -1, ExecFails: map[string][]int{}}
	replicas := map[string]int{}
	if sc.Project != nil {
		for _, p := range sc.Project.Procs {
			r := p.Replicas
			if r < 1 {
				r = 1
			}
			replicas[p.Name] = r
		}
	}
	repl := func(name string) int {
		if r, ok := replicas[name]; ok {
			return r
		}
		return 1
	}
	open := map[string]*Call{}
	for i := range log.Events {
		e := &log.Events[i]
		switch e.Kind {
		case "os.exec":
			kind, tok := "simproc", e.Subj
			if j := strings.IndexByte(tok, ':'); j > 0 && strings.HasPrefix(tok, "sim") {
				kind, tok = tok[:j], tok[j+1:]
			}
			in := &Inst{ExecTask: e.Task, Kind: kind, Token: tok, Pid: e.Pid, Pgid: e.N, ExecSeq: e.Seq, ExitSeq: -1, ReapSeq: -1, ExecT: e.T, Args: e.A, Dir: e.B}
			if env, ok := e.Data.([]string); ok {
				in.Env = env
			}
			if kind == "simproc" {
				in.Replica = tokenReplica(tok, repl)
				t.ByRep[in.Replica] = append(t.ByRep[in.Replica], in)
			}
			t.Insts = append(t.Insts, in)
			t.ByPid[in.Pid] = in
			t.ByToken[e.Subj] = append(t.ByToken[e.Subj], in)
		case "os.execfail":
			if !strings.HasPrefix(e.Subj, "sim") {
				rep := tokenReplica(e.Subj, repl)
				t.ExecFails[rep] = append(t.ExecFails[rep], e.Seq)
			}
		case "os.fork":
			in := &Inst{Kind: "child", Token: e.Subj, Pid: e.Pid, Ppid: e.N, ExecSeq: e.Seq, ExitSeq: -1, ReapSeq: -1, ExecT: e.T}
			fmt.Sscanf(e.A, "pgid=%d", &in.Pgid)
			if e.B != "" {
				in.Token = e.B // the child's own token "<parent>/c<i>"
			}
			t.Insts = append(t.Insts, in)
			t.ByPid[in.Pid] = in
		case "os.exit":
			if in := t.ByPid[e.Pid]; in != nil {
				in.ExitSeq, in.ExitT, in.Code = e.Seq, e.T, e.N
				if strings.HasPrefix(e.A, "signal ") {
					fmt.Sscanf(e.A, "signal %d", &in.BySig)
				}
			}
		case "os.reap":
			if in := t.ByPid[e.Pid]; in != nil {
				in.ReapSeq = e.Seq
			}
		case "os.write":
			if in := t.ByPid[e.Pid]; in != nil {
				txt, _ := e.Data.(string)
				in.Writes = append(in.Writes, WriteEv{e.Seq, e.N, txt})
			}
		case "os.kill":
			if strings.HasPrefix(e.A, "delivered:") {
				for _, f := range strings.Fields(strings.TrimPrefix(e.A, "delivered:")) {
					var pid int
					fmt.Sscanf(f, "%d", &pid)
					if in := t.ByPid[pid]; in != nil {
						in.Kills = append(in.Kills, KillEv{e.Task, e.Seq, e.T, e.N, e.Pid})
					}
				}
			}
		case "os.unknowncmd", "os.noscript":
			t.Unknown = append(t.Unknown, e.Subj+e.A)
		case "sut.state":
			t.Trans[e.Subj] = append(t.Trans[e.Subj], Trans{e.Seq, e.T, e.A, e.Task})
		case "api.call":
			c := &Call{Task: e.Task, Client: e.Subj, Idx: e.N, Desc: e.A, CallSeq: e.Seq, RetSeq: -1, CallT: e.T}
			if j := strings.IndexByte(e.A, '('); j > 0 {
				c.Op = e.A[:j]
				c.Arg = strings.TrimSuffix(e.A[j+1:], ")")
				if k := strings.IndexByte(c.Arg, ','); k >= 0 {
					c.Arg = c.Arg[:k]
				}
			} else {
				c.Op = e.A
			}
			open[fmt.Sprintf("%s/%d", e.Subj, e.N)] = c
			t.Calls = append(t.Calls, c)
		case "api.ret":
			if c := open[fmt.Sprintf("%s/%d", e.Subj, e.N)]; c != nil {
				c.RetSeq, c.RetT, c.Err, c.Data = e.Seq, e.T, e.B, e.Data
			}
		case "api.scaled":
			// harness note: a scale request returned successfully: the replica count changed
			replicas[e.Subj] = e.N
		case "obs.snap", "fin.snap":
			sn, _ := e.Data.(Snap)
			s := &SnapEv{Seq: e.Seq, T: e.T, Stable: sn.Stable, Final: e.Kind == "fin.snap", States: map[string]StateLite{}, Err: sn.Err}
			for _, st := range sn.States {
				s.States[st.Name] = st
			}
			if s.Final {
				t.Final = s
			} else {
				t.Snaps = append(t.Snaps, s)
			}
		case "run.call":
			t.RunCall = e.Seq
		case "run.ret":
			t.RunRet, t.RunCode, t.RunErr, t.RunRetT = e.Seq, e.N, e.A, e.T
		case "run.hang":
			t.Hang = true
		case "run.order":
			if e.A != "" {
				t.Order = strings.Split(e.A, ",")
			}
		case "load.err":
			t.LoadErr = e.A
		}
		t.EndSeq, t.EndT = e.Seq, e.T
	}
	return t
}

// LiveAt lists the top-level simproc instances alive at seq.
func (t *Truth) LiveAt(seq int) []*Inst {
	var r []*Inst
	for _, in := range t.Insts {
		if in.Kind == "simproc" && in.AliveAt(seq) {
			r = append(r, in)
		}
	}
	return r
}

// CallsOn returns the calls with one of the given ops that name the replica (or its
// process name).
func (t *Truth) CallsOn(replica string, ops ...string) []*Call {
	var r []*Call
	for _, c := range t.Calls {
		for _, op := range ops {
			if c.Op == op && (c.Arg == replica || op == "shutdown" || op == "update" || (op == "stopmany" && strings.Contains(c.Desc, replica))) {
				r = append(r, c)
			}
		}
	}
	return r
}

func (t *Truth) StatusAt(replica string, seq int) string {
	st := ""
	for _, tr := range t.Trans[replica] {
		if tr.Seq > seq {
			break
		}
		st = tr.State
	}
	return st
}

func sortedNames[V any](m map[string]V) []string {
	ks := make([]string, 0, len(m))
	for k := range m {
		ks = append(ks, k)
	}
	sort.Strings(ks)
	return ks
}

// Violation is one failed oracle clause.
type Violation struct {
	Prop  string `json:"prop"`
	Class string `json:"class"`
	Disc  string `json:"disc"` // discriminator: what distinguishes this failure from others of the class
	Msg   string `json:"msg"`
	Seq   int    `json:"seq"`
}

func (v Violation) Key() string { return v.Prop + "/" + v.Class + "/" + v.Disc }
