package harness

import (
	"regexp"
	"errors"
	"net/http"
	"syscall"
	"fmt"
	"io"
	"os"
	"sort"
	"strings"
	"testing"
	"testing/synctest"
	"time"

	"github.com/f1bonacc1/process-compose/src/admitter"
	"github.com/f1bonacc1/process-compose/src/app"
	pccmd "github.com/f1bonacc1/process-compose/src/cmd"
	"github.com/f1bonacc1/process-compose/src/health"
	"github.com/f1bonacc1/process-compose/src/loader"
	"github.com/f1bonacc1/process-compose/src/pclog"
	"github.com/f1bonacc1/process-compose/src/types"
	"github.com/rs/zerolog"
	zlog "github.com/rs/zerolog/log"

	"verifrt/simlog"
	"verifrt/simos"
	"verifrt/simrand"
	"verifrt/simsignal"
	"verifrt/simsync"
)

// StateLite is the part of a reported process state the oracles look at.
type StateLite struct {
	Name      string `json:"name"`
	Status    string `json:"status"`
	IsRunning bool   `json:"is_running"`
	Health    string `json:"health"`
	ExitCode  int    `json:"exit_code"`
	Restarts  int    `json:"restarts"`
	Pid       int    `json:"pid"`
}

type Snap struct {
	Stable bool        `json:"stable"`
	States []StateLite `json:"states"`
	Err    string      `json:"err,omitempty"`
}

type RunResult struct {
	Log       *simlog.Log
	Out       *simsync.Outcome
	World     *simos.World
	LoadErr   string
	Tmp       string
	Hash      uint64
	WallMs    float64
	BubbleErr string
	Files     map[string]string // log files read back after the run
	FinalLogs map[string][]string
	Notes     []string
}

func lite(s *types.ProcessState) StateLite {
	return StateLite{Name: s.Name, Status: s.Status, IsRunning: s.IsRunning, Health: s.Health, ExitCode: s.ExitCode, Restarts: s.Restarts, Pid: s.Pid}
}

func snapStates(r app.IProject) ([]StateLite, error) {
	st, err := r.GetProcessesState()
	if err != nil {
		return nil, err
	}
	out := make([]StateLite, 0, len(st.States))
	for i := range st.States {
		out = append(out, lite(&st.States[i]))
	}
	sort.Slice(out, func(i, j int) bool { return out[i].Name < out[j].Name })
	return out, nil
}

// tokenOf extracts "<kind> <token>" from a command line built by the real launcher.
func tokenOf(args []string) (kind, token string) {
	// "simprocB" is a second executable that behaves like "simproc" (C14: an update that
	// changes nothing but the executable)
	if len(args) >= 2 && args[0] == "simprocB" {
		return "simproc", args[1]
	}
	for _, a := range args {
		for _, k := range []string{"simproc", "simprobe", "simstop", "simenv"} {
			if i := strings.Index(a, k+" "); i >= 0 {
				f := strings.Fields(a[i+len(k)+1:])
				if len(f) > 0 {
					return k, f[0]
				}
			}
			if a == k {
				// entrypoint form: [simproc, token]
				for j, b := range args {
					if b == k && j+1 < len(args) {
						return k, args[j+1]
					}
				}
			}
		}
	}
	return "", ""
}

var defaultScript = simos.Script{LifeMs: 1000, Exit: 0, TermLagMs: 0}

type runCtx struct {
	started        *simsync.Event
	sweepSem       *simsync.Sem
	sweepCancelled *bool
	sc       *Scenario
	subs     map[string]*pclog.Connector
	launches map[string]int
	runner   *app.ProjectRunner
	proj     app.IProject
	rest     app.IProject // the bundled client over the REST server over the runner (nil unless the scenario uses it)
	eng      http.Handler
	tmp      string
}

func (rc *runCtx) resolve(req *simos.SpawnReq) (string, *simos.Script) {
	kind, tok := tokenOf(req.Args)
	if kind == "" {
		simlog.Add(simlog.Event{Kind: "os.unknowncmd", A: strings.Join(req.Args, " ")})
		d := defaultScript
		return "?" + strings.Join(req.Args, "_"), &d
	}
	key := tok
	if kind != "simproc" {
		key = kind + ":" + tok
	}
	ts := rc.sc.Scripts[key]
	if ts == nil {
		// replicas share the script "<name>.*"
		if i := strings.LastIndexByte(key, '.'); i > 0 {
			ts = rc.sc.Scripts[key[:i]+".*"]
		}
	}
	n := rc.launches[key]
	rc.launches[key] = n + 1
	if ts == nil || len(ts.Launches) == 0 {
		simlog.Add(simlog.Event{Kind: "os.noscript", Subj: key})
		d := defaultScript
		return key, &d
	}
	if n >= len(ts.Launches) {
		n = len(ts.Launches) - 1
	}
	s := ts.Launches[n]
	// "%T" in scripted output stands for the token of the command that writes it
	for i := range s.Out {
		if strings.Contains(s.Out[i].Data, "%T") {
			out := make([]simos.OutChunk, len(s.Out))
			copy(out, s.Out)
			for j := range out {
				out[j].Data = strings.ReplaceAll(out[j].Data, "%T", tok)
			}
			s.Out = out
			break
		}
	}
	return key, &s
}

// baseName strips the replica suffix of a name if what remains is a process of the scenario
func baseName(sc *Scenario, name string) string {
	if sc.Project == nil || sc.Project.Proc(name) != nil {
		return name
	}
	if i := strings.LastIndexByte(name, '-'); i > 0 && i+1 < len(name) && strings.Trim(name[i+1:], "0123456789") == "" && sc.Project.Proc(name[:i]) != nil {
		return name[:i]
	}
	return name
}

// InfoLite is what the oracles read of a process's configuration as the runner reports it
type InfoLite struct {
	Name        string   `json:"name"`
	ReplicaName string   `json:"replica_name"`
	ReplicaNum  int      `json:"replica_num"`
	Replicas    int      `json:"replicas"`
	Command     string   `json:"command"`
	Executable  string   `json:"executable"`
	Args        []string `json:"args"`
	Env         []string `json:"env"`
	WorkingDir  string   `json:"working_dir"`
	Restart     string   `json:"restart"`
	Disabled    bool     `json:"disabled"`
	DependsOn   []string `json:"depends_on"`
	Readiness   *ProbeLite `json:"readiness,omitempty"`
	Liveness    *ProbeLite `json:"liveness,omitempty"`
	Err         string   `json:"err,omitempty"`
}

// ProbeLite: the effective parameters of a probe as the runner reports them
type ProbeLite struct {
	InitialDelay, Period, Timeout, Success, Failure int
	HTTP                                            bool
	Exec, ExecDir                                   string
	Host, Scheme, Path, Port                        string
	NumPort                                         int
}

func probeLite(p *health.Probe) *ProbeLite {
	if p == nil {
		return nil
	}
	l := &ProbeLite{InitialDelay: p.InitialDelay, Period: p.PeriodSeconds, Timeout: p.TimeoutSeconds, Success: p.SuccessThreshold, Failure: p.FailureThreshold}
	if p.Exec != nil {
		l.Exec, l.ExecDir = p.Exec.Command, p.Exec.WorkingDir
	}
	if p.HttpGet != nil {
		l.HTTP, l.Host, l.Scheme, l.Path, l.Port, l.NumPort = true, p.HttpGet.Host, p.HttpGet.Scheme, p.HttpGet.Path, p.HttpGet.Port, p.HttpGet.NumPort
	}
	return l
}

// FileSnap: a log file as it was at the moment an observer read it
type FileSnap struct {
	Name, Content, Status string
}

// Audit is a consistent picture of the runner taken by one client task in one go
type Audit struct {
	Names      []string            `json:"names"`
	NamesErr   string              `json:"names_err,omitempty"`
	States     []StateLite         `json:"states"`
	StatesErr  string              `json:"states_err,omitempty"`
	Infos      map[string]InfoLite `json:"infos"`
	Logs       map[string][]string `json:"logs"`
	LogErrs    map[string]string   `json:"log_errs"`
	Gone       map[string]string   `json:"gone"` // name -> "" if GetProcessState still answers, else its error
	FreshNames []string            `json:"fresh_names,omitempty"`
	FreshInfos map[string]InfoLite `json:"fresh_infos,omitempty"`
	FreshErr   string              `json:"fresh_err,omitempty"`
}

func infoLite(c *types.ProcessConfig) InfoLite {
	il := InfoLite{Name: c.Name, ReplicaName: c.ReplicaName, ReplicaNum: c.ReplicaNum, Replicas: c.Replicas, Command: c.Command,
		Executable: c.Executable, Args: append([]string{}, c.Args...), Env: append([]string{}, c.Environment...), WorkingDir: c.WorkingDir,
		Restart: c.RestartPolicy.Restart, Disabled: c.Disabled}
	il.Readiness, il.Liveness = probeLite(c.ReadinessProbe), probeLite(c.LivenessProbe)
	for d := range c.DependsOn {
		il.DependsOn = append(il.DependsOn, d)
	}
	sort.Strings(il.DependsOn)
	return il
}

// audit: names, states, and per listed name its configuration and log; op.Args are names
// expected not to exist anymore; with op.Arg = "<process>" and op.N = n the scenario's
// project is loaded afresh with replicas: n for that process and its names are reported
func (rc *runCtx) audit(op *Op) *Audit {
	p := rc.proj
	viaRest := op.Rest && rc.rest != nil
	if viaRest {
		p = rc.rest
	}
	a := &Audit{Infos: map[string]InfoLite{}, Logs: map[string][]string{}, LogErrs: map[string]string{}, Gone: map[string]string{}}
	names, err := p.GetLexicographicProcessNames()
	a.Names, a.NamesErr = names, errStr(err)
	a.States, err = snapStates(p)
	a.StatesErr = errStr(err)
	for _, n := range names {
		c, err := p.GetProcessInfo(n)
		if err != nil {
			a.Infos[n] = InfoLite{Err: err.Error()}
		} else {
			a.Infos[n] = infoLite(c)
		}
		var lines []string
		if viaRest {
			lines, err = rc.restLogs(n, 1000, 0)
		} else {
			lines, err = p.GetProcessLog(n, 1000, 0)
		}
		if err != nil {
			a.LogErrs[n] = err.Error()
		} else {
			a.Logs[n] = lines
		}
	}
	for _, n := range op.Args {
		_, err := p.GetProcessState(n)
		a.Gone[n] = errStr(err)
	}
	if op.Arg != "" && op.N > 0 {
		spec := *rc.sc.Project
		spec.Procs = nil
		for _, q := range rc.sc.Project.Procs {
			c := *q
			if c.Name == op.Arg {
				c.Replicas = op.N
			}
			spec.Procs = append(spec.Procs, &c)
		}
		prj, err := loadProject(rc.sc, &spec, rc.tmp, "pc-fresh.yaml")
		if err != nil {
			a.FreshErr = err.Error()
		} else {
			for n, c := range prj.Processes {
				if c.Name == op.Arg {
					a.FreshNames = append(a.FreshNames, n)
					if a.FreshInfos == nil {
						a.FreshInfos = map[string]InfoLite{}
					}
					cc := c
					a.FreshInfos[n] = infoLite(&cc)
				}
			}
			sort.Strings(a.FreshNames)
		}
	}
	return a
}

var hexAddr = regexp.MustCompile(`0x[0-9a-f]{6,}`)

// errStr is the text of an error as it goes into the event log: addresses that a badly
// formatted message may carry are masked, they differ from one execution to the next
func errStr(err error) string {
	if err == nil {
		return ""
	}
	return stripTmp(hexAddr.ReplaceAllString(err.Error(), "0xADDR"))
}

// loadProject writes the scenario's files and loads them with the real loader.
func loadProject(sc *Scenario, spec *ProjectSpec, tmp, fname string) (*types.Project, error) {
	main := tmp + "/" + fname
	if err := os.WriteFile(main, []byte(spec.Render(tmp)), 0o644); err != nil {
		return nil, err
	}
	files := []string{main}
	for _, f := range sc.Extra {
		files = append(files, tmp+"/"+f)
	}
	opts := &loader.LoaderOptions{FileNames: files, IsInternalLoader: true}
	if _, ok := sc.Files[".env"]; ok {
		opts.EnvFileNames = []string{tmp + "/.env"}
	} else {
		opts.DisableDotenv(true)
	}
	if len(sc.Namespaces) > 0 {
		opts.AddAdmitter(&admitter.NamespaceAdmitter{EnabledNamespaces: sc.Namespaces})
	}
	return loader.Load(opts)
}

// RunScenario executes one simulated run. It must be called with a *testing.T because
// the fake clock comes from testing/synctest.
func RunScenario(t *testing.T, sc *Scenario, tape []int32) *RunResult {
	// silence the supervisor's own diagnostics without touching the global level: the
	// process log files are written through zerolog too
	zerolog.SetGlobalLevel(zerolog.InfoLevel)
	zlog.Logger = zerolog.New(io.Discard)
	if os.Getenv("VERIF_ZLOG") != "" {
		zerolog.SetGlobalLevel(zerolog.DebugLevel)
		zlog.Logger = zerolog.New(os.Stdout)
	}
	res := &RunResult{}
	t0 := time.Now()
	tmp, err := os.MkdirTemp(os.Getenv("VERIF_TMP"), "simrun-")
	if err != nil {
		res.BubbleErr = err.Error()
		return res
	}
	defer os.RemoveAll(tmp)
	res.Tmp = tmp
	for _, d := range sc.Dirs {
		_ = os.MkdirAll(absIn(tmp, d), 0o755)
	}
	for name, content := range sc.Files {
		_ = os.WriteFile(tmp+"/"+name, []byte(strings.ReplaceAll(content, "@TMP@", tmp)), 0o644)
	}
	// controlled process environment
	saved := os.Environ()
	defer func() {
		os.Clearenv()
		for _, kv := range saved {
			if i := strings.IndexByte(kv, '='); i > 0 {
				os.Setenv(kv[:i], kv[i+1:])
			}
		}
	}()
	for k, v := range sc.Environ {
		os.Setenv(k, v)
	}
	os.Unsetenv("COMPOSE_SHELL")

	lg := simlog.New()
	simlog.Cur = lg
	res.Log = lg
	rc := &runCtx{sc: sc, launches: map[string]int{}, tmp: tmp}
	world := simos.NewWorld(rc.resolve)
	world.Strip = tmp + "/"
	simos.W = world
	res.World = world
	simrand.Reset()
	simsignal.Reset()
	simsync.HookFn = func(kind, a, b string) {
		simlog.Add(simlog.Event{Kind: "sut." + kind, Subj: a, A: b})
	}
	defer func() { simlog.Cur = nil; simlog.OnAdd = nil; simos.W = nil; simsync.HookFn = nil }()

	var obsSem, sweepSem, finSem simsync.Sem
	finishing := false
	sweepCancelled := false
	rc.sweepSem, rc.sweepCancelled = &sweepSem, &sweepCancelled
	obsStop := false
	var started simsync.Event
	rc.started = &started
	cfg := simsync.Config{
		Seed: sc.Seed, Tape: tape, Strategy: sc.Strategy, IterMode: sc.IterMode, IterRot: sc.IterRot,
		MaxSteps: 250000, Horizon: 3 * time.Hour,
		ForceStallTask: sc.ForceStallTask, ForceStallStep: sc.ForceStallStep, ForceStallDur: time.Duration(sc.ForceStallMs) * time.Millisecond,
	}
	traceSteps := os.Getenv("VERIF_STEPS") != ""
	if sc.SweepStep > 0 || traceSteps {
		cfg.OnStep = func(step int, tk *simsync.Task, nready int) {
			if traceSteps {
				fmt.Printf("    step %d -> %v (site %d) ready=%d\n", step, tk, tk.Site, nready)
			}
			if step == sc.SweepStep {
				sweepSem.Post()
			}
		}
	}
	cfg.Stable = func() bool {
		if rc.proj == nil {
			return false
		}
		if !started.IsSet() {
			// the first stable point: Run() has registered and released everything it
			// starts by itself; API clients begin from here
			started.Set()
			return true
		}
		if finishing {
			finishing = false
			finSem.Post()
			return true
		}
		if obsStop || !sc.Observe {
			return false
		}
		obsSem.Post()
		return true
	}
	body := func() {
		simlog.Add(simlog.Event{Kind: "run.begin", A: sc.Prop, N: int(sc.Seed)})
		if sc.LogBuf != nil {
			runLogBuf(sc)
			simlog.Add(simlog.Event{Kind: "run.end"})
			return
		}
		if sc.LoadOnly > 0 {
			rc.runLoads(sc)
			simlog.Add(simlog.Event{Kind: "run.end"})
			return
		}
		project, err := loadProject(sc, sc.Project, tmp, "pc.yaml")
		if err != nil {
			res.LoadErr = err.Error()
			simlog.Add(simlog.Event{Kind: "load.err", A: err.Error()})
			return
		}
		opts := (&app.ProjectOpts{}).WithProject(project).WithOrderedShutDown(sc.OrderedShutdown).
			WithProcessesToRun(sc.ToRun).WithNoDeps(sc.NoDeps).WithIsTuiOn(true)
		runner, err := app.NewProjectRunner(opts)
		if err != nil {
			res.LoadErr = "runner: " + err.Error()
			simlog.Add(simlog.Event{Kind: "load.err", A: res.LoadErr})
			return
		}
		rc.runner = runner
		rc.proj = runner
		if sc.Rest {
			rc.restSetup()
		}
		if names, err := runner.GetDependenciesOrderNames(); err == nil {
			simlog.Add(simlog.Event{Kind: "run.order", A: strings.Join(names, ",")})
		}
		var runDone simsync.Event
		simsync.GoNamed("Run", func() {
			simlog.Add(simlog.Event{Kind: "run.call"})
			var err error
			if sc.ViaCmd && sc.Keep {
				err = pccmd.VerifRunProject(runner, true)
			} else if sc.ViaCmd {
				err = pccmd.VerifRunHeadless(runner)
			} else {
				err = runner.Run()
			}
			code := 0
			var ee *app.ExitError
			if errors.As(err, &ee) {
				code = ee.Code
			}
			simlog.Add(simlog.Event{Kind: "run.ret", N: code, A: errStr(err)})
			runDone.Set()
		})
		if sc.Observe {
			simsync.GoNamed("observer", func() {
				self := simsync.CurrentTask()
				for {
					obsSem.Wait()
					if obsStop {
						return
					}
					// a snapshot is "stable" when nobody else could move from the moment it
					// began (a wake-up may be left over from an earlier stable point) to its end
					quiet := simsync.ReadyOthers() == 0
					b0, t0 := simsync.OtherSteps(self), simsync.Elapsed()
					st, err := snapStates(runner)
					stable := quiet && simsync.OtherSteps(self) == b0 && simsync.Elapsed() == t0
					simlog.Add(simlog.Event{Kind: "obs.snap", N: b2i(stable), Data: Snap{Stable: stable, States: st, Err: errStr(err)}})
				}
			})
		}
		var clients simsync.WaitGroup
		for ci := range sc.Clients {
			c := &sc.Clients[ci]
			clients.Add(1)
			body := func() {
				defer clients.Done()
				rc.runClient(c)
			}
			if sc.StallClients {
				// the requests run on the caller's goroutine: with this flag fault F13 may set
				// it aside in the middle of a request, as it may a handler goroutine of the server
				simsync.GoNamedStallable("client:"+c.Name, body)
			} else {
				simsync.GoNamed("client:"+c.Name, body)
			}
		}
		for fi := range sc.WS {
			f := &sc.WS[fi]
			simsync.GoNamed("ws:"+f.Name, func() {
				rc.started.Wait()
				simsync.Sleep(simsync.SiteHarness, time.Duration(f.AtMs)*time.Millisecond)
				rc.runWSFollower(f)
			})
		}
		finished := runDone.WaitTimeout(time.Duration(sc.RunForMs) * time.Millisecond)
		if !finished && sc.EndShutdown {
			var sdDone simsync.Event
			simsync.GoNamed("final-shutdown", func() {
				simlog.Add(simlog.Event{Kind: "api.call", Subj: "main", N: 0, A: "shutdown()"})
				err := runner.ShutDownProject()
				simlog.Add(simlog.Event{Kind: "api.ret", Subj: "main", N: 0, A: "shutdown()", B: errStr(err)})
				sdDone.Set()
			})
			finished = runDone.WaitTimeout(time.Duration(sc.BoundMs) * time.Millisecond)
			sdDone.WaitTimeout(time.Duration(sc.BoundMs) * time.Millisecond)
		}
		if !finished {
			simlog.Add(simlog.Event{Kind: "run.hang", A: fmt.Sprintf("Run() has not returned %dms after the end of the workload", sc.BoundMs)})
		}
		sweepCancelled = true
		sweepSem.Post()
		// let the clients finish (bounded)
		var cdone simsync.Event
		simsync.GoNamed("clients-wait", func() { clients.Wait(); cdone.Set() })
		if !cdone.WaitTimeout(time.Duration(sc.BoundMs) * time.Millisecond) {
			simlog.Add(simlog.Event{Kind: "client.hang"})
		}
		if sc.QuietMs > 0 {
			simsync.Sleep(simsync.SiteHarness, time.Duration(sc.QuietMs)*time.Millisecond)
		}
		obsStop = true
		// the final observations are taken at a stable point: everything that happens at
		// this fake instant has happened
		finishing = true
		simsync.Yield(simsync.SiteHarness)
		finSem.Wait()
		// final observations
		if st, err := snapStates(runner); err == nil {
			simlog.Add(simlog.Event{Kind: "fin.snap", Data: Snap{Stable: true, States: st}})
		} else {
			simlog.Add(simlog.Event{Kind: "fin.snap", Data: Snap{Err: err.Error()}})
		}
		res.FinalLogs = map[string][]string{}
		if st, err := runner.GetProcessesState(); err == nil {
			for _, s := range st.States {
				if lines, err := runner.GetProcessLog(s.Name, 1<<20, 0); err == nil {
					res.FinalLogs[s.Name] = append([]string(nil), lines...)
				}
			}
		}
		simlog.Add(simlog.Event{Kind: "run.end"})
		obsSem.Post()
	}
	// synctest.Test ends the calling goroutine (FailNow) when the race detector reported
	// something during the bubble; run it on a goroutine of its own so that the worker
	// carries on with the next run.
	bubbleDone := make(chan struct{})
	go func() {
		defer close(bubbleDone)
		defer func() {
			if r := recover(); r != nil {
				res.BubbleErr = fmt.Sprint(r)
			}
		}()
		synctest.Test(t, func(t *testing.T) {
			res.Out = simsync.Execute(cfg, body)
		})
	}()
	<-bubbleDone
	// read back log files
	res.Files = map[string]string{}
	if ents, err := os.ReadDir(tmp); err == nil {
		for _, e := range ents {
			if strings.HasSuffix(e.Name(), ".log") || strings.Contains(e.Name(), ".log.") {
				if b, err := os.ReadFile(tmp + "/" + e.Name()); err == nil {
					res.Files[e.Name()] = string(b)
				}
			}
		}
	}
	res.Hash = lg.Hash()
	res.WallMs = float64(time.Since(t0).Microseconds()) / 1000
	return res
}

func b2i(b bool) int {
	if b {
		return 1
	}
	return 0
}

// runClient executes the scripted API operations of one client.
func (rc *runCtx) runClient(c *Client) {
	if c.Name != "sweep" {
		rc.started.Wait()
	}
	start := simsync.Elapsed()
	if c.Name == "sweep" {
		rc.sweepSem.Wait()
		if *rc.sweepCancelled {
			return
		}
		simsync.Prefer(simsync.CurrentTask())
		defer simsync.Prefer(nil)
		start = simsync.Elapsed()
	}
	for i := range c.Ops {
		op := &c.Ops[i]
		if d := time.Duration(op.AtMs)*time.Millisecond - (simsync.Elapsed() - start); d > 0 {
			simsync.Sleep(simsync.SiteHarness, d)
		} else {
			simsync.Yield(simsync.SiteHarness)
		}
		desc := op.Op + "(" + op.Arg
		if op.Op == "scale" || op.Op == "log" || op.Op == "update" || op.Op == "reload" || op.Op == "audit" || op.Op == "signal" {
			desc += fmt.Sprintf(",%d", op.N)
		}
		if len(op.Args) > 0 {
			desc += strings.Join(op.Args, "+")
		}
		desc += ")"
		simlog.Add(simlog.Event{Kind: "api.call", Subj: c.Name, N: i, A: desc})
		out, err := rc.doOp(op)
		simlog.Add(simlog.Event{Kind: "api.ret", Subj: c.Name, N: i, A: desc, B: errStr(err), Data: out})
	}
}

func (rc *runCtx) doOp(op *Op) (any, error) {
	p := rc.proj
	if op.Rest && rc.rest != nil {
		p = rc.rest
	}
	switch op.Op {
	case "http":
		body := ""
		if len(op.Args) > 0 {
			body = op.Args[0]
		}
		f := strings.SplitN(op.Arg, " ", 2)
		if len(f) != 2 || rc.eng == nil {
			return nil, fmt.Errorf("harness: bad http op %q", op.Arg)
		}
		return rc.rawHTTP(f[0], f[1], body), nil
	case "cmp":
		if rc.rest == nil || len(op.Args) == 0 {
			return nil, fmt.Errorf("harness: cmp without REST")
		}
		return rc.cmpRead(op.Args[0], op.Arg), nil
	}
	switch op.Op {
	case "start":
		return nil, p.StartProcess(op.Arg)
	case "stop":
		return nil, p.StopProcess(op.Arg)
	case "restart":
		return nil, p.RestartProcess(op.Arg)
	case "stopmany":
		return p.StopProcesses(op.Args)
	case "scale":
		err := p.ScaleProcess(op.Arg, op.N)
		if err == nil {
			simlog.Add(simlog.Event{Kind: "api.scaled", Subj: baseName(rc.sc, op.Arg), N: op.N})
		}
		return nil, err
	case "signal":
		// a signal sent to the process-compose binary itself
		if simsignal.Deliver(syscall.Signal(op.N)) == 0 {
			return nil, fmt.Errorf("harness: nobody listens for signal %d", op.N)
		}
		return nil, nil
	case "shutdown":
		return nil, p.ShutDownProject()
	case "state":
		s, err := p.GetProcessState(op.Arg)
		if err != nil {
			return nil, err
		}
		return lite(s), nil
	case "states":
		return snapStates(p)
	case "audit":
		return rc.audit(op), nil
	case "info":
		return p.GetProcessInfo(op.Arg)
	case "log":
		if op.Rest && rc.eng != nil {
			// through the real handler: it encodes the window it was handed after the log's
			// lock has been released
			return rc.restLogs(op.Arg, op.N, op.M)
		}
		return p.GetProcessLog(op.Arg, op.N, op.M)
	case "projstate":
		return p.GetProjectState(false)
	case "names":
		return p.GetLexicographicProcessNames()
	case "loglen":
		return p.GetLogLength(), nil
	case "filewhendone":
		// what an observer sees who reads the log file of a process the moment the supervisor
		// reports that it has ended (it is woken at the very step of that state change):
		// op.Args[0] is the file, relative to the scratch directory
		sem := &simsync.Sem{}
		name := op.Arg
		status := ""
		prev := simlog.OnAdd
		simlog.OnAdd = func(e *simlog.Event) {
			if prev != nil {
				prev(e)
			}
			if e.Kind == "sut.state" && e.Subj == name && status == "" && (e.A == types.ProcessStateCompleted || e.A == types.ProcessStateError || e.A == types.ProcessStateSkipped) {
				status = e.A
				sem.Post()
			}
		}
		sem.Wait()
		b, rerr := os.ReadFile(rc.tmp + "/" + op.Args[0])
		return &FileSnap{Name: op.Args[0], Content: string(b), Status: status}, rerr
	case "subscribe":
		n := 0
		conn := pclog.NewConnector(func(lines []string) { n += len(lines) }, func(s string) (int, error) { n++; return len(s), nil }, op.N)
		if rc.subs == nil {
			rc.subs = map[string]*pclog.Connector{}
		}
		err := p.GetLogsAndSubscribe(op.Arg, conn)
		if err == nil {
			rc.subs[op.Arg] = conn
		}
		return nil, err
	case "unsubscribe":
		conn := rc.subs[op.Arg]
		if conn == nil {
			return nil, nil
		}
		delete(rc.subs, op.Arg)
		return nil, p.UnSubscribeLogger(op.Arg, conn)
	case "reload":
		// the files the project was loaded from are rewritten, then the runner reloads them
		if op.N >= len(rc.sc.Updates) {
			return nil, fmt.Errorf("harness: no update %d", op.N)
		}
		if err := os.WriteFile(rc.tmp+"/pc.yaml", []byte(rc.sc.Updates[op.N].Render(rc.tmp)), 0o644); err != nil {
			return nil, fmt.Errorf("harness: %w", err)
		}
		return p.ReloadProject()
	case "update":
		if op.N >= len(rc.sc.Updates) {
			return nil, fmt.Errorf("harness: no update %d", op.N)
		}
		prj, err := loadProject(rc.sc, rc.sc.Updates[op.N], rc.tmp, fmt.Sprintf("pc-update-%d.yaml", op.N))
		if err != nil {
			return nil, fmt.Errorf("harness: load update: %w", err)
		}
		return p.UpdateProject(prj)
	}
	return nil, fmt.Errorf("harness: unknown op %s", op.Op)
}
