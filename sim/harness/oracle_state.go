package harness

import (
	"fmt"
)

// ---- C09: reported state is truthful ----

var legalNext = map[string][]string{
	"Pending":     {"Running", "Launching", "Skipped", "Error", "Terminating", "Completed"},
	"Running":     {"Restarting", "Terminating", "Completed", "Error"},
	"Launching":   {"Launched", "Terminating", "Completed", "Error", "Restarting"},
	"Launched":    {"Terminating", "Completed", "Restarting"},
	"Restarting":  {"Running", "Launching", "Terminating", "Completed", "Error"},
	"Terminating": {"Completed", "Restarting", "Error", "Terminating", "Skipped"},
}

func isTerminalStatus(s string) bool {
	switch s {
	case "Completed", "Skipped", "Error", "Disabled", "Foreground":
		return true
	}
	return false
}

func contains(xs []string, x string) bool {
	for _, y := range xs {
		if x == y {
			return true
		}
	}
	return false
}

func checkC09(sc *Scenario, t *Truth) []Violation {
	var vs []Violation
	// (a) transitions: the synchronous hook sees every change that goes through the state
	// machine's choke point; statuses reported at stable points are merged in, so that a
	// status written behind the hook's back is judged as a transition too
	merged := map[string][]Trans{}
	for rep, trs := range t.Trans {
		merged[rep] = append([]Trans(nil), trs...)
	}
	for _, sn := range t.Snaps {
		if !sn.Stable {
			continue
		}
		for name, st := range sn.States {
			trs := merged[name]
			cur := ""
			idx := 0
			for idx < len(trs) && trs[idx].Seq <= sn.Seq {
				cur = trs[idx].State
				idx++
			}
			if cur != "" && st.Status != cur {
				ins := Trans{Seq: sn.Seq, T: sn.T, State: st.Status, Task: -2}
				trs = append(trs[:idx], append([]Trans{ins}, trs[idx:]...)...)
				merged[name] = trs
			}
		}
	}
	for _, rep := range sortedNames(merged) {
		p := sc.specOfReplica(rep)
		prev := "Pending"
		if p != nil && p.Disabled {
			prev = "Disabled"
		} else if p != nil && p.Foreground {
			prev = "Foreground"
		}
		if len(sc.ToRun) > 0 {
			prev = ""
		}
		prevSeq := 0
		lastStart := 0
		for _, tr := range merged[rep] {

			if prev == "" || tr.State == prev {
				prev, prevSeq = tr.State, tr.Seq
				if tr.State == "Running" || tr.State == "Launching" {
					lastStart = tr.Seq
				}
				continue
			}
			ok := false
			if isTerminalStatus(prev) {
				// terminal states change only on an explicit new start, and a newly started
				// instance begins Pending (it may be stopped, skipped or fail from there)
				ok = tr.State == "Pending" && (t.explicitStartCovering(rep, prevSeq-1, tr.Seq) || t.startRequestedBetween(rep, lastStart, tr.Seq))
			} else {
				ok = contains(legalNext[prev], tr.State)
				if !ok && (tr.State == "Running" || tr.State == "Launching" || tr.State == "Pending") && t.startRequestedBetween(rep, lastStart, tr.Seq) {
					ok = true // a new instance launched on an explicit (re)start request
				}
			}
			if !ok {
				vs = append(vs, Violation{"C09", "illegal-transition", prev + "->" + tr.State,
					fmt.Sprintf("%s changed status %s -> %s at seq %d (t=%v)", rep, prev, tr.State, tr.Seq, tr.T), tr.Seq})
			}
			prev, prevSeq = tr.State, tr.Seq
			if tr.State == "Running" || tr.State == "Launching" {
				lastStart = tr.Seq
			}
		}
	}
	// (b) agreement at stable points
	snaps := append([]*SnapEv{}, t.Snaps...)
	if t.Final != nil {
		snaps = append(snaps, t.Final)
	}
	seen := map[string]bool{}
	for _, sn := range snaps {
		if !sn.Stable {
			continue
		}
		for _, name := range sortedNames(sn.States) {
			st := sn.States[name]
			p := sc.specOfReplica(name)
			if p != nil && p.IsDaemon {
				continue
			}
			var alive *Inst
			var last *Inst
			for _, in := range t.ByRep[name] {
				if in.ExecSeq < sn.Seq {
					last = in
					if in.AliveAt(sn.Seq) {
						alive = in
					}
				}
			}
			add := func(class, disc, msg string) {
				k := class + "/" + disc + "/" + name
				if seen[k] {
					return
				}
				seen[k] = true
				vs = append(vs, Violation{"C09", class, disc, msg, sn.Seq})
			}
			if alive == nil && (st.Status == "Running" || st.IsRunning) {
				add("reported-running-but-no-command-alive", "status="+st.Status, fmt.Sprintf("%s is reported status=%s is_running=%v at seq %d (t=%v) but none of its commands is alive", name, st.Status, st.IsRunning, sn.Seq, sn.T))
			}
			if alive != nil {
				switch st.Status {
				case "Running", "Launching", "Launched", "Terminating":
					if st.Status != "Terminating" && !st.IsRunning {
						add("command-alive-but-is-running-false", "status="+st.Status, fmt.Sprintf("%s has a live command (pid %d) and status %s but is_running=false at seq %d", name, alive.Pid, st.Status, sn.Seq))
					}
				default:
					add("command-alive-but-reported-"+st.Status, "", fmt.Sprintf("%s has a live command (pid %d) but is reported %s at seq %d (t=%v)", name, alive.Pid, st.Status, sn.Seq, sn.T))
				}
			}
			switch st.Status {
			case "Completed":
				failedLater := false
				for _, fs := range t.ExecFails[name] {
					if last != nil && fs > last.ExecSeq && fs < sn.Seq {
						failedLater = true // a later launch failed: that is the "last command" now
					}
				}
				if failedLater {
					if st.ExitCode == 0 {
						add("zero-exit-code-after-failed-launch", "", fmt.Sprintf("%s: its last launch failed but exit code 0 is reported", name))
					}
				} else if last != nil && last.ExitSeq >= 0 && last.ExitSeq < sn.Seq && st.ExitCode != last.Code && !t.explicitStartCovering(name, last.ExitSeq, sn.Seq) {
					// (a process that was started again after that command - and has not launched
					// another one: it was stopped, or skipped, while it waited - reports the fate
					// of its new life, not the exit code of the old command)
					add("exit-code-mismatch", "", fmt.Sprintf("%s is Completed with reported exit code %d but its last command exited with %d", name, st.ExitCode, last.Code))
				}
			case "Skipped", "Error":
				if st.ExitCode == 0 {
					add("zero-exit-code-for-"+st.Status, "", fmt.Sprintf("%s is %s but reports exit code 0", name, st.Status))
				}
			}
		}
	}
	// (c) no transient state left once nothing is alive and nothing is left to wait for
	if (sc.Arm == "natural" || sc.Arm == "quiesce") && t.Final != nil {
		for _, name := range sortedNames(t.Final.States) {
			st := t.Final.States[name]
			switch st.Status {
			case "Pending", "Launching", "Restarting", "Terminating":
				alive := false
				for _, in := range t.ByRep[name] {
					if in.AliveAt(t.Final.Seq) {
						alive = true
					}
				}
				if st.Status == "Pending" {
					// waiting on a dependency that can still change is something left to wait for
					waiting := false
					if p := sc.specOfReplica(name); p != nil {
						for dep := range p.DependsOn {
							for _, rn := range ReplicaNames(dep, 1) {
								if ds, ok := t.Final.States[rn]; ok && !isTerminalStatus(ds.Status) {
									waiting = true
								}
							}
						}
					}
					if waiting {
						continue
					}
				}
				if st.Status == "Restarting" {
					// a back-off wait that the policy still owes is something left to wait for
					insts := t.ByRep[name]
					shutDown := false
					for _, c := range t.Calls {
						if c.Op == "shutdown" && c.RetSeq >= 0 && len(insts) > 0 && insts[len(insts)-1].ExecSeq < c.RetSeq {
							// after a project shutdown nothing is relaunched - unless somebody
							// started the process again afterwards: then its policy applies anew
							shutDown = true
						}
					}
					if p := sc.specOfReplica(name); p != nil && len(insts) > 0 && restartOwed(p, insts[len(insts)-1].Code, 0) && !shutDown {
						continue
					}
				}
				if !alive && len(t.LiveAt(t.Final.Seq)) == 0 {
					vs = append(vs, Violation{"C09", "stuck-in-transient-state", st.Status, fmt.Sprintf("%s is still reported %s at the end of the run although no command is alive and nothing is left to wait for", name, st.Status), t.Final.Seq})
				}
			}
		}
	}
	return vs
}

// startRequestedBetween: an explicit start-like request naming the replica was invoked
// after position `after` and before `before` (its effect may materialise much later, e.g.
// when the new instance has to wait for dependencies first).
func (t *Truth) startRequestedBetween(rep string, after, before int) bool {
	for _, c := range t.Calls {
		if !isStartOp(c.Op) {
			continue
		}
		if (c.Op == "start" || c.Op == "restart") && c.Arg != rep {
			continue
		}
		if c.CallSeq > after && c.CallSeq < before {
			return true
		}
	}
	return false
}
