package harness

import (
	"fmt"
	"strings"
)

// ---- C01: dependency gating ----

// condMet reports whether dependency dep (a process name) has met condition c at log
// position seq, judged from ground truth only. why explains a negative answer.
func condMet(sc *Scenario, t *Truth, dep, c string, seq int, depth int, waitStart int) (bool, string) {
	d := sc.Project.Proc(dep)
	if d == nil || d.Disabled || d.Foreground {
		return true, "" // not scheduled to run: nothing is owed
	}
	if len(sc.ToRun) > 0 {
		return true, "" // selection may have disabled it: handled by C07
	}
	if sd := t.firstShutdownSeq(sc); sd >= 0 && sd < seq {
		return true, "" // a project shutdown has begun: launches after it are C03's business
	}
	reps := ReplicaNames(d.Name, d.Replicas)
	for _, rep := range reps {
		insts := t.ByRep[rep]
		// explicitly stopped by the user (and not started again): no longer "scheduled to run"
		lastOp := ""
		everStopped := false
		for _, call := range t.Calls {
			if call.CallSeq >= seq {
				continue
			}
			switch call.Op {
			case "shutdown", "update":
				return true, ""
			case "scale":
				if strings.Contains(call.Desc, d.Name) {
					return true, ""
				}
			case "stop", "stopmany", "start", "restart":
				if call.Arg == rep || (call.Op == "stopmany" && strings.Contains(call.Desc, rep)) {
					if call.Op != "start" && (call.RetSeq < 0 || call.RetSeq >= waitStart) {
						// (a stop that was over before this dependent began to wait released
						// nobody: the dependent meets the dependency's next life)
						everStopped = true
					}
					lastOp = call.Op
					if call.RetSeq < 0 || call.RetSeq > seq {
						lastOp = "stop" // still in progress: nothing is demanded
					}
				}
			}
		}
		if (lastOp == "stop" || lastOp == "stopmany") && c != "process_healthy" && c != "process_log_ready" {
			// a dependency that was stopped counts as finished / started; for the readiness
			// conditions a stop without readiness leaves the condition unmet (C05: the
			// dependent is skipped), so the evidence below is still required
			return true, ""
		}
		if everStopped && (c == "process_completed" || c == "process_completed_successfully" || c == "process_started" || c == "") {
			// a stop (also the one inside a restart) releases whoever waits for the
			// dependency to complete or start: nothing further is demanded
			return true, ""
		}
		// readiness belongs to a life of the dependency: the launches since its last
		// explicit (re)start. A request still in progress makes both lives acceptable.
		// Lives that overlap the dependent's own waiting period (which began at waitStart)
		// all count: a dependency that was ready when the dependent checked it may be
		// restarted afterwards without the dependent having to wait again.
		epochs := []int{0}
		for _, call := range t.Calls {
			if (call.Op == "start" || call.Op == "restart") && call.Arg == rep && call.Err == "" && call.CallSeq < seq {
				if call.RetSeq >= 0 && call.RetSeq < seq && call.RetSeq < waitStart {
					epochs = []int{call.CallSeq}
				} else {
					epochs = append(epochs, call.CallSeq)
				}
			}
		}
		inEpoch := func(s int) bool {
			for i, e := range epochs {
				next := 1 << 60
				if i+1 < len(epochs) {
					next = epochs[i+1]
				}
				_ = next
				if s > e {
					return true
				}
			}
			return false
		}
		termNoCmd := false
		for _, tr := range t.Trans[rep] {
			if tr.Seq < seq && (tr.State == "Skipped" || tr.State == "Error") {
				termNoCmd = true
			}
		}
		switch c {
		case "process_completed", "process_completed_successfully":
			// a "final" exit is one that is not followed by an automatic relaunch: the
			// process had finished (a later explicit start by the user begins a new life
			// and does not un-finish it)
			var last, fin *Inst
			for i, in := range insts {
				if in.ExecSeq >= seq {
					break
				}
				last = in
				if in.ExitSeq >= 0 && in.ExitSeq < seq {
					final := true
					if i+1 < len(insts) && !t.explicitStartCovering(rep, in.ExitSeq, insts[i+1].ExecSeq) {
						final = false
					}
					if final {
						fin = in
					}
				}
			}
			if fin == nil {
				if termNoCmd {
					if c == "process_completed_successfully" {
						return false, fmt.Sprintf("%s ended without success (skipped or failed to start)", rep)
					}
					continue
				}
				if last == nil {
					return false, fmt.Sprintf("%s has not been launched yet", rep)
				}
				if last.ExitSeq < 0 || last.ExitSeq > seq {
					return false, fmt.Sprintf("%s (pid %d) is still running", rep, last.Pid)
				}
				return false, fmt.Sprintf("%s had exited but was relaunched automatically afterwards: it had not finished", rep)
			}
			if c == "process_completed_successfully" && fin.Code != 0 {
				return false, fmt.Sprintf("%s exited with code %d", rep, fin.Code)
			}
		case "process_healthy":
			ok := false
			tok := d.Token
			if d.Readiness != nil {
				tok = d.Readiness.Token
			} else if d.Liveness != nil {
				tok = d.Liveness.Token
			}
			tok = strings.ReplaceAll(tok, "{{.PC_REPLICA_NUM}}", fmt.Sprint(indexOf(reps, rep)))
			for _, in := range t.ByToken["simprobe:"+tok] {
				if in.ExitSeq >= 0 && in.ExitSeq < seq && in.Code == 0 && in.BySig == 0 && inEpoch(in.ExecSeq) {
					ok = true
				}
			}
			if !ok {
				return false, fmt.Sprintf("no probe of %s has succeeded yet (since its last explicit start)", rep)
			}
		case "process_log_ready":
			ok := false
			for _, in := range insts {
				if !inEpoch(in.ExecSeq) {
					continue
				}
				acc := ""
				for _, w := range in.Writes {
					if w.Seq < seq {
						acc += w.Text
					}
				}
				if strings.Contains(acc, d.ReadyLine) {
					ok = true
				}
			}
			if !ok {
				return false, fmt.Sprintf("%s has not written its ready line %q yet (since its last explicit start)", rep, d.ReadyLine)
			}
		case "process_started", "":
			if depth > 8 || termNoCmd {
				// Skipped / failed to start: it is no longer waiting on anything
				continue
			}
			launched := false
			for _, in := range insts {
				if in.ExecSeq < seq {
					launched = true
				}
			}
			if launched {
				continue // it has been launched: it was released from its dependencies then
			}
			// released from all of its own dependencies
			for _, dd := range sortedKeys(d.DependsOn) {
				if ok, why := condMet(sc, t, dd, d.DependsOn[dd], seq, depth+1, waitStart); !ok {
					return false, fmt.Sprintf("%s is itself still waiting: %s", rep, why)
				}
			}
		}
	}
	return true, ""
}

func indexOf(xs []string, x string) int {
	for i, y := range xs {
		if x == y {
			return i
		}
	}
	return 0
}

func unq(s string) string {
	// os.write events store %q text clipped to 60 bytes; ready lines are short
	s = strings.TrimSuffix(s, "...")
	if len(s) >= 2 && s[0] == '"' {
		s = s[1:]
		if s[len(s)-1] == '"' {
			s = s[:len(s)-1]
		}
	}
	return strings.NewReplacer(`\n`, "\n", `\"`, `"`, `\\`, `\`).Replace(s)
}

func checkC01(sc *Scenario, t *Truth) []Violation {
	var vs []Violation
	for _, in := range t.Insts {
		if in.Kind != "simproc" {
			continue
		}
		p := sc.specOfReplica(in.Replica)
		if p == nil || len(p.DependsOn) == 0 {
			continue
		}
		// automatic relaunches (restart after an exit) are not gated again
		auto := false
		for _, prev := range t.ByRep[in.Replica] {
			if prev.ExecSeq < in.ExecSeq && !t.explicitStartCovering(in.Replica, prev.ExecSeq, in.ExecSeq) {
				auto = true
			}
		}
		if auto {
			continue
		}
		// the waiting period of this instance began when it became Pending
		waitStart := t.RunCall
		for _, tr := range t.Trans[in.Replica] {
			if tr.Seq < in.ExecSeq && tr.State == "Pending" {
				waitStart = tr.Seq
			}
		}
		for _, dep := range sortedKeys(p.DependsOn) {
			c := p.DependsOn[dep]
			if ok, why := condMet(sc, t, dep, c, in.ExecSeq, 0, waitStart); !ok {
				vs = append(vs, Violation{"C01", "launched-before-condition-met", c,
					fmt.Sprintf("%s launched at seq %d (t=%v) but its dependency %s (%s) was not satisfied: %s", in.Replica, in.ExecSeq, in.ExecT, dep, c, why), in.ExecSeq})
			}
		}
	}
	return vs
}

// ---- C05: unsatisfiable dependency => skipped, transitively ----

// fate of a process at the end of a finite run, from ground truth
type fate struct {
	terminal  bool
	ran       bool
	lastCode  int
	skipped   bool
	errored   bool
	everReady bool // readiness probe success or ready line seen before its final exit
	finalExit int
}

func fateOf(sc *Scenario, t *Truth, name string) fate {
	f := fate{}
	d := sc.Project.Proc(name)
	insts := t.ByRep[name]
	f.ran = len(insts) > 0
	f.terminal = true
	for _, in := range insts {
		if in.ExitSeq < 0 {
			f.terminal = false
		}
		f.lastCode = in.Code
		f.finalExit = in.ExitSeq
	}
	for _, tr := range t.Trans[name] {
		if tr.State == "Skipped" {
			f.skipped = true
		}
		if tr.State == "Error" {
			f.errored = true
		}
	}
	if d != nil {
		if d.ReadyLine != "" {
			for _, in := range insts {
				acc := ""
				for _, w := range in.Writes {
					acc += w.Text
				}
				if strings.Contains(acc, d.ReadyLine) {
					f.everReady = true
				}
			}
		}
		if d.Readiness != nil {
			for _, in := range t.ByToken["simprobe:"+d.Readiness.Token] {
				if in.ExitSeq >= 0 && in.Code == 0 && in.BySig == 0 {
					f.everReady = true
				}
			}
		}
	}
	return f
}

func checkC05(sc *Scenario, t *Truth) []Violation {
	var vs []Violation
	if sc.Project == nil || t.Final == nil {
		return nil
	}
	sd := t.firstShutdownSeq(sc)
	// unsat[name]: the process has a dependency that ended without satisfying the condition
	unsat := map[string]string{}
	changed := true
	for changed {
		changed = false
		for _, p := range sc.Project.Procs {
			if p.Disabled || p.Foreground || unsat[p.Name] != "" {
				continue
			}
			for _, dep := range sortedKeys(p.DependsOn) {
				c := p.DependsOn[dep]
				d := sc.Project.Proc(dep)
				if d == nil || d.Disabled || d.Foreground || d.Replicas > 1 {
					continue
				}
				f := fateOf(sc, t, dep)
				depSkipped := unsat[dep] != "" || f.skipped
				// a user stop / shutdown makes the fate of the dependency something this rule does not cover precisely
				stopped := false
				for _, call := range t.Calls {
					if (call.Op == "stop" || call.Op == "stopmany" || call.Op == "restart" || call.Op == "update" || call.Op == "scale") && (strings.Contains(call.Desc, dep)) {
						stopped = true
					}
				}
				why := ""
				if stopped {
					// the one case that is clear-cut: the user stopped it (and nothing else was ever
					// asked of it) before it became ready, so it never will
					onlyStops := true
					for _, call := range t.Calls {
						if strings.Contains(call.Desc, dep) && !(call.Op == "stop" && call.Arg == dep) && call.Client != "main" {
							switch call.Op {
							case "start", "restart", "update", "reload", "scale", "stopmany":
								onlyStops = false
							}
						}
					}
					if onlyStops && (c == "process_log_ready" || c == "process_healthy") && f.terminal && !f.everReady && (sd < 0 || f.finalExit < sd) {
						unsat[p.Name] = fmt.Sprintf("%s (%s): %s was stopped on request before it ever became ready", dep, c, dep)
						changed = true
						break
					}
					continue
				}
				if !f.terminal && !depSkipped {
					continue
				}
				switch c {
				case "process_completed_successfully":
					if depSkipped || f.errored {
						why = fmt.Sprintf("%s was skipped or failed to start", dep)
					} else if f.ran && f.lastCode != 0 && !autoRelaunchPending(sc, t, dep) {
						why = fmt.Sprintf("%s exited with code %d", dep, f.lastCode)
					}
				case "process_healthy", "process_log_ready":
					if (depSkipped || f.errored) && !f.everReady {
						why = fmt.Sprintf("%s was skipped or failed to start and never became ready", dep)
					} else if f.ran && !f.everReady && (sd < 0 || f.finalExit < sd) {
						why = fmt.Sprintf("%s ended without ever becoming ready", dep)
					}
				}
				if why != "" {
					unsat[p.Name] = fmt.Sprintf("%s (%s): %s", dep, c, why)
					changed = true
					break
				}
			}
		}
	}
	for _, name := range sortedNames(unsat) {
		p := sc.Project.Proc(name)
		if t.explicitStartCovering(name, 0, t.EndSeq) {
			continue
		}
		if insts := t.ByRep[name]; len(insts) > 0 {
			if sd >= 0 && sd < insts[0].ExecSeq {
				continue // launched after a project shutdown began: C03's business
			}
			// launched although a dependency had failed: only a violation if the launch came after the failure was final
			vs = append(vs, Violation{"C05", "launched-despite-failed-dependency", depCond(unsat[name]),
				fmt.Sprintf("%s was launched (seq %d) although its dependency can never satisfy the condition: %s", name, insts[0].ExecSeq, unsat[name]), insts[0].ExecSeq})
			continue
		}
		st, ok := t.Final.States[name]
		if !ok {
			continue
		}
		// a shutdown that began before the dependency's fate was sealed may have stopped the dependent while pending
		if sd >= 0 && st.Status != "Skipped" {
			continue
		}
		if st.Status != "Skipped" {
			vs = append(vs, Violation{"C05", "not-reported-skipped", depCond(unsat[name]) + " status=" + st.Status,
				fmt.Sprintf("%s should be Skipped (%s) but is reported %s", name, unsat[name], st.Status), t.Final.Seq})
		} else if st.ExitCode == 0 {
			vs = append(vs, Violation{"C05", "skipped-with-zero-exit-code", "", fmt.Sprintf("%s is Skipped but reports exit code 0", name), t.Final.Seq})
		}
		// once a project shutdown has begun, a process that is skipped (typically because
		// that very shutdown ended its dependencies) neither starts another one nor changes
		// the exit code
		skipSeq := -1
		for _, tr := range t.Trans[name] {
			if tr.State == "Skipped" {
				skipSeq = tr.Seq
			}
		}
		if sd >= 0 && (skipSeq < 0 || sd < skipSeq) {
			continue
		}
		if sd >= 0 && sc.Strategy.StallPermille > 0 {
			continue // a stalled task (F13) may have been overtaken by the shutdown between the skip and its handling
		}
		if p.ExitOnSkipped && st.Status == "Skipped" && t.RunRet >= 0 && t.RunCode == 0 {
			vs = append(vs, Violation{"C05", "exit-on-skipped-ignored", "", fmt.Sprintf("%s (exit_on_skipped) was skipped but Run() reported success", name), t.RunRet})
		}
	}
	return vs
}

func depCond(s string) string {
	if i := strings.IndexByte(s, '('); i >= 0 {
		if j := strings.IndexByte(s[i:], ')'); j > 0 {
			return s[i+1 : i+j]
		}
	}
	return ""
}

// autoRelaunchPending: the last exit of the process still owes a restart (so it has not
// finished yet in the sense of the restart policy).
func autoRelaunchPending(sc *Scenario, t *Truth, name string) bool {
	p := sc.Project.Proc(name)
	insts := t.ByRep[name]
	if p == nil || len(insts) == 0 {
		return false
	}
	return restartOwed(p, insts[len(insts)-1].Code, len(insts)-1)
}
