package harness

import (
	"encoding/json"
	"fmt"
	"sort"
	"strings"

	"github.com/f1bonacc1/process-compose/src/types"

	"verifrt/simlog"
)

// ---- C16: loading ----

// LoadProc is what the oracle reads of one loaded process (replica)
type LoadProc struct {
	Key           string // key in project.Processes
	Name          string
	ReplicaName   string
	ReplicaNum    int
	Replicas      int
	Namespace     string
	LaunchTimeout int
	Command       string
	WorkingDir    string
	LogLocation   string
	Description   string
	ReadyExec     string
	LiveExec      string
	HTTPHost      string
	HTTPPath      string
	HTTPPort      string
	HTTPNumPort   int
	VarReplica    string
}

type LoadSnap struct {
	Procs []LoadProc
	JSON  string // the whole project, paths relative to the scratch directory
	Err   string
}

func snapProject(prj *types.Project, tmp string) *LoadSnap {
	s := &LoadSnap{}
	for key, c := range prj.Processes {
		lp := LoadProc{Key: key, Name: c.Name, ReplicaName: c.ReplicaName, ReplicaNum: c.ReplicaNum, Replicas: c.Replicas, Namespace: c.Namespace,
			LaunchTimeout: c.LaunchTimeout, Command: c.Command, WorkingDir: strings.TrimPrefix(c.WorkingDir, tmp+"/"), LogLocation: strings.TrimPrefix(c.LogLocation, tmp+"/"), Description: c.Description}
		if v, ok := c.Vars["PC_REPLICA_NUM"]; ok {
			lp.VarReplica = fmt.Sprint(v)
		}
		if p := c.ReadinessProbe; p != nil {
			if p.Exec != nil {
				lp.ReadyExec = p.Exec.Command
			}
			if p.HttpGet != nil {
				lp.HTTPHost, lp.HTTPPath, lp.HTTPPort, lp.HTTPNumPort = p.HttpGet.Host, p.HttpGet.Path, p.HttpGet.Port, p.HttpGet.NumPort
			}
		}
		if p := c.LivenessProbe; p != nil && p.Exec != nil {
			lp.LiveExec = p.Exec.Command
		}
		s.Procs = append(s.Procs, lp)
	}
	sort.Slice(s.Procs, func(i, j int) bool { return s.Procs[i].Key < s.Procs[j].Key })
	b, err := json.Marshal(prj)
	if err != nil {
		s.Err = "marshal: " + err.Error()
	}
	s.JSON = strings.ReplaceAll(string(b), tmp, "@TMP@")
	return s
}

// runLoads loads the scenario's files sc.LoadOnly times (map iteration orders are the
// simulator's) and records what each load produced
func (rc *runCtx) runLoads(sc *Scenario) {
	for i := 0; i < sc.LoadOnly; i++ {
		prj, err := loadProject(sc, sc.Project, rc.tmp, "pc.yaml")
		if err != nil {
			simlog.Add(simlog.Event{Kind: "load.snap", N: i, B: err.Error(), Data: &LoadSnap{Err: err.Error()}})
			continue
		}
		simlog.Add(simlog.Event{Kind: "load.snap", N: i, Data: snapProject(prj, rc.tmp)})
	}
}

func firstDiff(a, b string) string {
	n := len(a)
	if len(b) < n {
		n = len(b)
	}
	i := 0
	for i < n && a[i] == b[i] {
		i++
	}
	lo := i - 60
	if lo < 0 {
		lo = 0
	}
	cut := func(s string) string {
		hi := i + 60
		if hi > len(s) {
			hi = len(s)
		}
		return s[lo:hi]
	}
	return fmt.Sprintf("...%s... vs ...%s...", cut(a), cut(b))
}

func checkC16(sc *Scenario, res *RunResult, t *Truth) []Violation {
	var vs []Violation
	add := func(class, disc, msg string, seq int) {
		vs = append(vs, Violation{"C16", class, disc, msg, seq})
	}
	var snaps []*LoadSnap
	for i := range t.Events {
		if t.Events[i].Kind == "load.snap" {
			if s, ok := t.Events[i].Data.(*LoadSnap); ok {
				snaps = append(snaps, s)
			}
		}
	}
	if len(snaps) == 0 {
		return nil
	}
	for i, s := range snaps {
		if s.Err != "" {
			add("valid-configuration-rejected", "", fmt.Sprintf("load %d failed: %s", i, s.Err), 0)
			return vs
		}
	}
	for i := 1; i < len(snaps); i++ {
		if snaps[i].JSON != snaps[0].JSON {
			add("load-not-deterministic", "", fmt.Sprintf("loads 0 and %d of the same files differ: %s", i, firstDiff(snaps[0].JSON, snaps[i].JSON)), 0)
			return vs
		}
	}
	s := snaps[0]
	by := map[string]LoadProc{}
	for _, p := range s.Procs {
		if _, dup := by[p.ReplicaName]; dup {
			add("replica-name-not-unique", "", fmt.Sprintf("two loaded processes are named %s", p.ReplicaName), 0)
			return vs
		}
		by[p.ReplicaName] = p
		if p.Key != p.ReplicaName {
			add("replica-key-mismatch", "", fmt.Sprintf("process %s is stored under the key %s", p.ReplicaName, p.Key), 0)
			return vs
		}
	}
	render := func(tpl string, ps *ProcSpec, k int) string {
		vars := map[string]string{}
		for n, v := range sc.Project.Vars {
			vars[n] = v
		}
		for n, v := range ps.Vars {
			vars[n] = v
		}
		vars["PC_REPLICA_NUM"] = fmt.Sprint(k)
		out := tpl
		for n, v := range vars {
			out = strings.ReplaceAll(out, "{{."+n+"}}", v)
		}
		return out
	}
	total := 0
	for _, ps := range sc.Project.Procs {
		n := ps.Replicas
		if n < 1 {
			n = 1
		}
		names := ReplicaNames(ps.Name, n)
		total += n
		for k, nm := range names {
			lp, ok := by[nm]
			if !ok {
				add("replica-missing", "", fmt.Sprintf("%s (replica %d of %s, replicas: %d) was not loaded; loaded: %v", nm, k, ps.Name, n, keysOfLoad(by)), 0)
				return vs
			}
			where := fmt.Sprintf("%s (replica %d of %d)", nm, k, n)
			switch {
			case lp.Name != ps.Name:
				add("wrong-default", "name", fmt.Sprintf("%s has name %q", where, lp.Name), 0)
			case lp.ReplicaNum != k || lp.Replicas != n:
				add("replica-numbering", "", fmt.Sprintf("%s says replica_num=%d replicas=%d", where, lp.ReplicaNum, lp.Replicas), 0)
			case ps.Namespace == "" && lp.Namespace != "default" || ps.Namespace != "" && lp.Namespace != ps.Namespace:
				add("wrong-default", "namespace", fmt.Sprintf("%s has namespace %q (configured %q)", where, lp.Namespace, ps.Namespace), 0)
			case lp.LaunchTimeout < 1 || (ps.LaunchTimeout >= 1 && lp.LaunchTimeout != ps.LaunchTimeout):
				add("wrong-default", "launch_timeout", fmt.Sprintf("%s has launch timeout %d", where, lp.LaunchTimeout), 0)
			case lp.Command != render("simproc "+ps.Token, ps, k):
				add("not-rendered-for-own-replica", "command", fmt.Sprintf("%s has command %q; expected %q", where, lp.Command, render("simproc "+ps.Token, ps, k)), 0)
			case lp.WorkingDir != render(ps.WorkingDir, ps, k):
				add("not-rendered-for-own-replica", "working_dir", fmt.Sprintf("%s has working directory %q; expected %q", where, lp.WorkingDir, render(ps.WorkingDir, ps, k)), 0)
			case lp.LogLocation != render(ps.LogLocation, ps, k):
				add("not-rendered-for-own-replica", "log_location", fmt.Sprintf("%s has log location %q; expected %q", where, lp.LogLocation, render(ps.LogLocation, ps, k)), 0)
			case lp.Description != render(ps.Description, ps, k):
				add("not-rendered-for-own-replica", "description", fmt.Sprintf("%s has description %q; expected %q", where, lp.Description, render(ps.Description, ps, k)), 0)
			case lp.VarReplica != fmt.Sprint(k):
				add("not-rendered-for-own-replica", "vars", fmt.Sprintf("%s carries PC_REPLICA_NUM=%q", where, lp.VarReplica), 0)
			}
			if len(vs) > 0 {
				return vs
			}
			if pr := ps.Readiness; pr != nil {
				if pr.HTTP == nil {
					if want := render("simprobe "+pr.Token, ps, k); lp.ReadyExec != want {
						add("not-rendered-for-own-replica", "readiness exec", fmt.Sprintf("%s has the readiness command %q; expected %q", where, lp.ReadyExec, want), 0)
						return vs
					}
				} else {
					if want := render(pr.HTTP.Host, ps, k); want != "" && strings.TrimSpace(want) != "" && lp.HTTPHost != want {
						add("not-rendered-for-own-replica", "readiness host", fmt.Sprintf("%s probes host %q; expected %q", where, lp.HTTPHost, want), 0)
						return vs
					}
					if want := render(pr.HTTP.Path, ps, k); want != "" && lp.HTTPPath != want {
						add("not-rendered-for-own-replica", "readiness path", fmt.Sprintf("%s probes path %q; expected %q", where, lp.HTTPPath, want), 0)
						return vs
					}
					if want := render(pr.HTTP.Port, ps, k); want != "" {
						n := 0
						fmt.Sscanf(want, "%d", &n)
						if lp.HTTPPort != want || (n >= 1 && n <= 65535 && lp.HTTPNumPort != n) {
							add("not-rendered-for-own-replica", "readiness port", fmt.Sprintf("%s probes port %q (%d); expected %q", where, lp.HTTPPort, lp.HTTPNumPort, want), 0)
							return vs
						}
					}
				}
			}
			if pr := ps.Liveness; pr != nil && pr.HTTP == nil {
				if want := render("simprobe "+pr.Token, ps, k); lp.LiveExec != want {
					add("not-rendered-for-own-replica", "liveness exec", fmt.Sprintf("%s has the liveness command %q; expected %q", where, lp.LiveExec, want), 0)
					return vs
				}
			}
		}
	}
	if len(s.Procs) != total {
		add("unexpected-process", "", fmt.Sprintf("%d processes were loaded; the files define %d: %v", len(s.Procs), total, keysOfLoad(by)), 0)
	}
	return vs
}

func keysOfLoad(m map[string]LoadProc) []string {
	var r []string
	for k := range m {
		r = append(r, k)
	}
	sort.Strings(r)
	return r
}

func genC16(r *R, sc *Scenario, tier string) {
	spec := &ProjectSpec{}
	sc.Project = spec
	sc.Scripts = map[string]*TokenScript{}
	if r.P(600) {
		spec.Vars = map[string]string{"G": Pick(r, "gv", "g2"), "H": "hv"}
	}
	n := r.Range(1, 4)
	for i := 0; i < n; i++ {
		p := &ProcSpec{Name: fmt.Sprintf("q%d", i), Replicas: Pick(r, 0, 1, 2, 2, 3, 5, 10, 11)}
		tpl := func(base string) string {
			s := base
			if r.P(700) {
				s += "{{.PC_REPLICA_NUM}}"
			}
			if spec.Vars != nil && r.P(400) {
				s += "-{{.G}}"
			}
			if p.Vars != nil && r.P(500) {
				s += "-{{.L}}"
			}
			return s
		}
		if r.P(500) {
			p.Vars = map[string]string{"L": Pick(r, "lv", "l2")}
			if spec.Vars != nil && r.P(300) {
				p.Vars["G"] = "local-g" // the process's own value wins
			}
		}
		p.Token = tpl(p.Name + ".")
		if r.P(400) {
			p.WorkingDir = tpl("wd")
		}
		if r.P(400) {
			p.LogLocation = tpl("log") + ".log"
		}
		if r.P(400) {
			p.Description = tpl("replica ")
		}
		if r.P(300) {
			p.Namespace = Pick(r, "ns1", "ns2")
		}
		if r.P(200) {
			p.Disabled = true // not started by itself, but loaded like any other (it can be started on request)
		}
		if r.P(100) {
			p.Foreground = true
		}
		if r.P(200) {
			p.LaunchTimeout = Pick(r, -1, 0, 3)
			if p.LaunchTimeout < 1 {
				p.LaunchTimeout = 0 // rendered only when non-zero; zero and absent mean "default"
			}
		}
		switch r.Intn(4) {
		case 0:
			p.Readiness = &ProbeSpec{Token: tpl(p.Name + ".")}
		case 1:
			hs := &HTTPSpec{Host: tpl("h"), Path: "/" + tpl("p")}
			if r.P(600) {
				hs.Port = "80" + Pick(r, "{{.PC_REPLICA_NUM}}", "80")
			}
			p.Readiness = &ProbeSpec{Token: p.Name, HTTP: hs}
		}
		if r.P(250) {
			p.Liveness = &ProbeSpec{Token: tpl(p.Name + ".live")}
		}
		if i > 0 && r.P(300) {
			// (a dependency on a replicated process is not accepted by the loader: not generated)
			if d := spec.Procs[r.Intn(i)]; d.Replicas <= 1 && (!d.Disabled || p.Disabled) {
				p.DependsOn = map[string]string{d.Name: "process_started"}
			}
		}
		spec.Procs = append(spec.Procs, p)
	}
	if r.P(150) {
		// a key the process body has no business with: the name of a process is its key
		q := spec.Procs[r.Intn(n)]
		q.RawYAML = fmt.Sprintf("    name: %s\n", Pick(r, "other", "q0", "q1"))
	}
	if r.P(200) {
		// a second file that merely touches a process: what the first one configured stays
		q := spec.Procs[r.Intn(n)]
		sc.Files = map[string]string{"override.yaml": fmt.Sprintf("processes:\n  %s:\n    environment:\n      - \"OVR=1\"\n", q.Name)}
		sc.Extra = []string{"override.yaml"}
	}
	sc.LoadOnly = r.Range(2, 4)
	sc.IterMode = Pick(r, 0, 0, 0, 1, 2, 3)
	sc.IterRot = r.Intn(7)
	sc.Strategy = genStrategy(r)
	sc.Strategy.StallPermille = 0
	sc.Observe = false
	sc.Arm = "load"
}
