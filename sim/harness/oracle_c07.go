package harness

import (
	"fmt"
	"sort"
	"strings"

	"verifrt/simos"
)

// ---- C07: run plan ----

// graph facts computed from the scenario (the oracle's own, trivial implementation)
func c07Cycle(spec *ProjectSpec) (bool, string) {
	color := map[string]int{}
	var found string
	var dfs func(n string) bool
	dfs = func(n string) bool {
		color[n] = 1
		p := spec.Proc(n)
		if p != nil {
			for _, d := range sortedKeys(p.DependsOn) {
				if spec.Proc(d) == nil {
					continue
				}
				if color[d] == 1 {
					found = n + "->" + d
					return true
				}
				if color[d] == 0 && dfs(d) {
					return true
				}
			}
		}
		color[n] = 2
		return false
	}
	for _, p := range spec.Procs {
		if color[p.Name] == 0 && dfs(p.Name) {
			return true, found
		}
	}
	return false, ""
}

func c07Dangling(spec *ProjectSpec) string {
	for _, p := range spec.Procs {
		for _, d := range sortedKeys(p.DependsOn) {
			if spec.Proc(d) == nil {
				return p.Name + "->" + d
			}
		}
	}
	return ""
}

func checkC07(sc *Scenario, res *RunResult, t *Truth) []Violation {
	var vs []Violation
	add := func(class, disc, msg string, seq int) {
		vs = append(vs, Violation{"C07", class, disc, msg, seq})
	}
	spec := sc.Project
	cyc, where := c07Cycle(spec)
	dang := c07Dangling(spec)
	if cyc || dang != "" {
		if res.LoadErr == "" {
			if cyc {
				add("cycle-accepted", "", fmt.Sprintf("the configuration has a dependency cycle (%s) but was loaded", where), 0)
			} else {
				add("dangling-dependency-accepted", "", fmt.Sprintf("the configuration depends on an undefined process (%s) but was loaded", dang), 0)
			}
		}
		return vs
	}
	if res.LoadErr != "" {
		add("valid-configuration-rejected", "", fmt.Sprintf("the configuration is acyclic and complete but loading failed: %s", res.LoadErr), 0)
		return vs
	}
	// who is to run
	admitted := map[string]bool{}
	for _, p := range spec.Procs {
		ns := p.Namespace
		if ns == "" {
			ns = "default"
		}
		if len(sc.Namespaces) == 0 || hasStr(sc.Namespaces, ns) {
			admitted[p.Name] = true
		}
	}
	want := map[string]bool{}
	switch {
	case len(sc.ToRun) == 0:
		for _, p := range spec.Procs {
			if admitted[p.Name] && !p.Disabled && !p.Foreground {
				want[p.Name] = true
			}
		}
	case sc.NoDeps:
		for _, n := range sc.ToRun {
			if p := spec.Proc(n); p != nil && admitted[n] && !p.Foreground {
				want[n] = true
			}
		}
	default:
		var walk func(n string)
		walk = func(n string) {
			p := spec.Proc(n)
			if p == nil || want[n] || !admitted[n] {
				return
			}
			want[n] = true
			for d := range p.DependsOn {
				walk(d)
			}
		}
		for _, n := range sc.ToRun {
			walk(n)
		}
		for n := range want {
			if spec.Proc(n).Foreground {
				delete(want, n)
			}
		}
	}
	wantReps := map[string]string{} // replica name -> process name
	for n := range want {
		for _, rn := range ReplicaNames(n, spec.Proc(n).Replicas) {
			wantReps[rn] = n
		}
	}
	// the order
	if t.Order != nil || len(wantReps) == 0 {
		pos := map[string]int{}
		for i, n := range t.Order {
			if _, dup := pos[n]; dup {
				add("order-lists-process-twice", "", fmt.Sprintf("the dependency order %v lists %s twice", t.Order, n), 0)
				return vs
			}
			pos[n] = i
		}
		for rn := range wantReps {
			if _, ok := pos[rn]; !ok {
				add("order-misses-process", "", fmt.Sprintf("the dependency order %v does not list %s, which is to run", t.Order, rn), 0)
				return vs
			}
		}
		for _, n := range t.Order {
			if _, ok := wantReps[n]; !ok {
				add("order-lists-process-not-to-run", "", fmt.Sprintf("the dependency order %v lists %s, which is not to run (disabled, foreground, not selected or outside the namespaces)", t.Order, n), 0)
				return vs
			}
		}
		if !sc.NoDeps {
			for rn, n := range wantReps {
				for d := range spec.Proc(n).DependsOn {
					for _, drn := range ReplicaNames(d, spec.Proc(d).Replicas) {
						if dp, ok := pos[drn]; ok && dp > pos[rn] {
							add("order-not-topological", "", fmt.Sprintf("the dependency order %v lists %s before its dependency %s", t.Order, rn, drn), 0)
							return vs
						}
					}
				}
			}
		}
	}
	if t.RunRet < 0 {
		return vs // Run() did not return: nothing more can be said here (C04)
	}
	// who was launched
	launched := map[string]int{}
	for _, in := range t.Insts {
		if in.Kind == "simproc" {
			launched[in.Replica]++
		}
	}
	for rn := range wantReps {
		if launched[rn] != 1 {
			add("selected-process-launches", fmt.Sprintf("launches=%d", launched[rn]), fmt.Sprintf("%s is to run (to_run=%v no_deps=%v namespaces=%v) but was launched %d times", rn, sc.ToRun, sc.NoDeps, sc.Namespaces, launched[rn]), 0)
			return vs
		}
	}
	for rn, n := range launched {
		if rn == "nu" && sc.Arm == "live" {
			continue // added by the update and to run (C14 says how often)
		}
		if _, ok := wantReps[rn]; !ok {
			add("unselected-process-launched", "", fmt.Sprintf("%s was launched %d times although it is not to run (to_run=%v no_deps=%v namespaces=%v; disabled/foreground/other namespace or not selected)", rn, n, sc.ToRun, sc.NoDeps, sc.Namespaces), 0)
			return vs
		}
	}
	if len(sc.ToRun) > 0 && t.Final != nil {
		for _, p := range spec.Procs {
			if !admitted[p.Name] || want[p.Name] {
				continue
			}
			for _, rn := range ReplicaNames(p.Name, p.Replicas) {
				if st, ok := t.Final.States[rn]; !ok || st.Status != "Disabled" {
					add("unselected-process-not-disabled", "", fmt.Sprintf("%s was not selected (to_run=%v) but is reported %q instead of Disabled", rn, sc.ToRun, st.Status), 0)
					return vs
				}
			}
		}
	}
	return vs
}

func genC07(r *R, sc *Scenario, tier string) {
	spec := &ProjectSpec{}
	sc.Project = spec
	sc.Scripts = map[string]*TokenScript{}
	n := r.Range(2, 6)
	conds := []string{"process_started", "process_started", "process_completed", "process_completed_successfully"}
	for i := 0; i < n; i++ {
		name := fmt.Sprintf("g%d", i)
		p := &ProcSpec{Name: name, Token: name}
		sc.Scripts[name] = &TokenScript{Launches: []simos.Script{{LifeMs: Pick(r, 50, 200, 500), Exit: 0}}}
		spec.Procs = append(spec.Procs, p)
	}
	dep := func(a, b int) {
		p := spec.Procs[a]
		if p.DependsOn == nil {
			p.DependsOn = map[string]string{}
		}
		p.DependsOn[spec.Procs[b].Name] = conds[r.Intn(len(conds))]
	}
	ep := Pick(r, 150, 300, 500)
	for i := 0; i < n; i++ {
		for j := 0; j < i; j++ {
			if r.P(ep) {
				dep(i, j)
			}
		}
	}
	kind := r.Intn(10)
	switch {
	case kind < 3: // back edges: very likely a cycle
		for k := r.Range(1, 2); k > 0; k-- {
			a, b := r.Intn(n), r.Intn(n)
			if a > b {
				a, b = b, a
			}
			dep(a, b) // a < b (or a == b: a process that depends on itself)
		}
	case kind == 3: // a dependency on a process that is not defined
		p := spec.Procs[r.Intn(n)]
		if p.DependsOn == nil {
			p.DependsOn = map[string]string{}
		}
		p.DependsOn[Pick(r, "ghost", "g9", "G0")] = "process_started"
		if r.P(400) {
			p.Disabled = true // an undefined dependency is one whoever names it
		}
	}
	if cyc, _ := c07Cycle(spec); cyc && r.P(600) {
		// a cycle is a cycle, whoever is on it: also among processes that are not started by themselves
		pd := Pick(r, 300, 600, 1000)
		for _, p := range spec.Procs {
			if r.P(pd) {
				p.Disabled = true
			}
		}
	}
	if cyc, _ := c07Cycle(spec); (cyc || c07Dangling(spec) != "") && r.P(400) {
		// a cycle or an undefined dependency is rejected wherever it sits - also among
		// processes of namespaces that are not selected
		for _, p := range spec.Procs {
			p.Namespace = Pick(r, "a", "b", "")
		}
		sc.Namespaces = [][]string{{"a"}, {"b"}, {"default"}, {"zz"}, {"a", "default"}}[r.Intn(5)]
	}
	if cyc, _ := c07Cycle(spec); !cyc && c07Dangling(spec) == "" {
		dependents := func(name string) []string {
			var r []string
			for _, p := range spec.Procs {
				if _, ok := p.DependsOn[name]; ok {
					r = append(r, p.Name)
				}
			}
			return r
		}
		// disabled: closed under "depends on" (a disabled process only has disabled dependents)
		if r.P(400) {
			var mark func(nm string)
			mark = func(nm string) {
				p := spec.Proc(nm)
				if p.Disabled {
					return
				}
				p.Disabled = true
				for _, d := range dependents(nm) {
					mark(d)
				}
			}
			mark(spec.Procs[r.Intn(n)].Name)
		}
		// foreground and replicated: only processes nobody depends on
		for _, p := range spec.Procs {
			if len(dependents(p.Name)) > 0 {
				continue
			}
			switch {
			case r.P(150):
				p.Foreground = true
			case r.P(200):
				p.Replicas = r.Range(2, 3)
				p.Token = p.Name + ".{{.PC_REPLICA_NUM}}"
				sc.Scripts[p.Name+".*"] = sc.Scripts[p.Name]
			}
		}
		// namespaces: one per connected component
		if r.P(350) {
			comp := map[string]int{}
			var flood func(nm string, c int)
			flood = func(nm string, c int) {
				if _, ok := comp[nm]; ok {
					return
				}
				comp[nm] = c
				for d := range spec.Proc(nm).DependsOn {
					flood(d, c)
				}
				for _, d := range dependents(nm) {
					flood(d, c)
				}
			}
			c := 0
			for _, p := range spec.Procs {
				if _, ok := comp[p.Name]; !ok {
					flood(p.Name, c)
					c++
				}
			}
			nsOf := map[int]string{}
			for i := 0; i < c; i++ {
				nsOf[i] = Pick(r, "", "a", "b")
			}
			for _, p := range spec.Procs {
				p.Namespace = nsOf[comp[p.Name]]
			}
			if r.P(700) {
				sc.Namespaces = [][]string{{"a"}, {"b"}, {"default"}, {"a", "default"}, {"a", "b"}}[r.Intn(5)]
			}
		}
		// a selection
		if r.P(450) {
			var cands []string
			for _, p := range spec.Procs {
				ns := p.Namespace
				if ns == "" {
					ns = "default"
				}
				if !p.Foreground && (len(sc.Namespaces) == 0 || hasStr(sc.Namespaces, ns)) {
					cands = append(cands, p.Name)
				}
			}
			if len(cands) > 0 {
				k := r.Range(1, len(cands))
				for ; k > 0; k-- {
					c := cands[r.Intn(len(cands))]
					if !hasStr(sc.ToRun, c) {
						sc.ToRun = append(sc.ToRun, c)
					}
				}
				sort.Strings(sc.ToRun)
				sc.NoDeps = r.P(300)
			}
		}
	}
	sc.Arm = "plan"
	if cyc, _ := c07Cycle(spec); !cyc && c07Dangling(spec) == "" && len(sc.ToRun) == 0 && len(sc.Namespaces) == 0 && r.P(250) {
		// live arm: the project keeps running, and processes that are not to be started by
		// themselves enter it later - through a scale request or a project update
		sc.Arm = "live"
		keep := &ProcSpec{Name: "keep", Token: "keep"}
		sc.Scripts["keep"] = &TokenScript{Launches: []simos.Script{{LifeMs: -1}}}
		spec.Procs = append(spec.Procs, keep)
		if r.P(500) {
			fg := &ProcSpec{Name: "fg", Token: "fg.{{.PC_REPLICA_NUM}}", Foreground: true}
			if r.P(300) {
				fg.Foreground, fg.Disabled = false, true
			}
			sc.Scripts["fg.*"] = &TokenScript{Launches: []simos.Script{{LifeMs: 100}}}
			spec.Procs = append(spec.Procs, fg)
			sc.Clients = append(sc.Clients, Client{Name: "live", Ops: []Op{{AtMs: 1000, Op: "scale", Arg: "fg", N: r.Range(2, 3)}}})
		} else {
			up := cloneSpec(spec)
			up.Procs = append(up.Procs, &ProcSpec{Name: "fgnew", Token: "fgnew", Foreground: true}, &ProcSpec{Name: "disnew", Token: "disnew", Disabled: true}, &ProcSpec{Name: "nu", Token: "nu"})
			for _, nm := range []string{"fgnew", "disnew", "nu"} {
				sc.Scripts[nm] = &TokenScript{Launches: []simos.Script{{LifeMs: 100}}}
			}
			if r.P(500) {
				// ... and a process that is running becomes one that is not to be started by
				// itself: its command is stopped and not launched again
				tog := &ProcSpec{Name: "tog", Token: "tog"}
				sc.Scripts["tog"] = &TokenScript{Launches: []simos.Script{{LifeMs: -1, TermLagMs: 10}, {LifeMs: -1, TermLagMs: 10}}}
				spec.Procs = append(spec.Procs, tog)
				t2 := *tog
				if r.P(500) {
					t2.Disabled = true
				} else {
					t2.Foreground = true
				}
				up.Procs = append(up.Procs, &t2)
			}
			if len(spec.Procs) > 1 && r.P(500) {
				// an existing process that is not to be started changes as well
				for _, q := range up.Procs {
					if q.Foreground || q.Disabled {
						q.Env = append(q.Env, "UPD=1")
						break
					}
				}
			}
			sc.Updates = []*ProjectSpec{up}
			sc.Clients = append(sc.Clients, Client{Name: "live", Ops: []Op{{AtMs: 1000, Op: Pick(r, "update", "reload"), N: 0}}})
		}
	}
	sc.Strategy = genStrategy(r)
	sc.Strategy.StallPermille = 0
	sc.IterMode = Pick(r, 0, 0, 0, 1, 2, 3)
	sc.IterRot = r.Intn(7)
	sc.RunForMs = 20000
	sc.QuietMs = 500
	_ = strings.Join
}
