package harness

import (
	"time"
	"fmt"
	"sort"
	"strings"

	"verifrt/simos"
)

// ---- C14: live project update ----

// launchKey renders what of a process specification reaches its command: token (command
// line), environment, working directory, and what decides about launches (policy, probes,
// dependencies). Two specifications with equal keys are "unchanged".
func launchKey(p *ProcSpec) string {
	deps := []string{}
	for k, v := range p.DependsOn {
		deps = append(deps, k+":"+v)
	}
	sort.Strings(deps)
	probe := func(q *ProbeSpec) string {
		if q == nil {
			return "-"
		}
		i := func(v *int) string {
			if v == nil {
				return "_"
			}
			return fmt.Sprint(*v)
		}
		return q.Token + "/" + i(q.InitialDelay) + "/" + i(q.Period) + "/" + i(q.Timeout) + "/" + i(q.SuccessThreshold) + "/" + i(q.FailureThreshold)
	}
	b := "_"
	if p.Backoff != nil {
		b = fmt.Sprint(*p.Backoff)
	}
	st := "_"
	if p.StopTimeout != nil {
		st = fmt.Sprint(*p.StopTimeout)
	}
	return strings.Join([]string{p.Token, strings.Join(p.Env, ","), p.WorkingDir, p.Restart, b, fmt.Sprint(p.MaxRestarts), probe(p.Readiness), probe(p.Liveness), strings.Join(deps, ","), fmt.Sprint(p.Disabled), p.ReadyLine,
		fmt.Sprint(p.UseEntry), p.Exe, fmt.Sprint(p.ParentOnly), st, fmt.Sprint(p.ExitOnSkipped)}, "|")
}

func cloneSpec(p *ProjectSpec) *ProjectSpec {
	c := *p
	c.Procs = nil
	for _, q := range p.Procs {
		d := *q
		d.Env = append([]string{}, q.Env...)
		if q.DependsOn != nil {
			d.DependsOn = map[string]string{}
			for k, v := range q.DependsOn {
				d.DependsOn[k] = v
			}
		}
		if q.Readiness != nil {
			r := *q.Readiness
			d.Readiness = &r
		}
		c.Procs = append(c.Procs, &d)
	}
	return &c
}

// wantStatus: the status map an update from cur to next must return
func wantStatus(cur, next *ProjectSpec) map[string]string {
	want := map[string]string{}
	for _, q := range next.Procs {
		if o := cur.Proc(q.Name); o == nil {
			want[q.Name] = "added"
		} else if launchKey(o) != launchKey(q) {
			want[q.Name] = "updated"
		}
	}
	for _, o := range cur.Procs {
		if next.Proc(o.Name) == nil {
			want[o.Name] = "removed"
		}
	}
	return want
}

func statusDiff(want, got map[string]string) []string {
	var diff []string
	for k, v := range want {
		if got[k] != v {
			diff = append(diff, fmt.Sprintf("%s: want %s got %q", k, v, got[k]))
		}
	}
	for k, v := range got {
		if _, ok := want[k]; !ok {
			diff = append(diff, fmt.Sprintf("%s: want nothing got %q", k, v))
		}
	}
	sort.Strings(diff)
	return diff
}

func specNames(p *ProjectSpec) []string {
	var r []string
	for _, q := range p.Procs {
		r = append(r, q.Name)
	}
	sort.Strings(r)
	return r
}

func checkC14(sc *Scenario, res *RunResult, t *Truth) []Violation {
	var vs []Violation
	add := func(class, disc, msg string, seq int) {
		vs = append(vs, Violation{"C14", class, disc, msg, seq})
	}
	if sc.Arm == "updaterace" {
		return checkC14Race(sc, t)
	}
	if sc.Arm == "replicas" {
		return checkC14Replicas(sc, t)
	}
	if sc.Arm == "restartrace" || sc.Arm == "slowdying" {
		return checkC14Launches(sc, t)
	}
	vs = append(vs, checkC14Launches(sc, t)...)
	if len(vs) > 0 {
		return vs
	}
	cur := sc.Project
	var calls []*Call
	for _, c := range t.Calls {
		if c.Client == "updater" {
			calls = append(calls, c)
		}
	}
	sort.Slice(calls, func(i, j int) bool { return calls[i].Idx < calls[j].Idx })
	var last *Call
	var prev *ProjectSpec
	// live command of a process: any token "<name>.v<k>"
	liveProc := func(name string, seq int) *Inst {
		var live *Inst
		for _, in := range t.Insts {
			if in.Kind == "simproc" && strings.HasPrefix(in.Token, name+".v") && in.AliveAt(seq) {
				live = in
			}
		}
		return live
	}
	instsOf := func(name string) []*Inst {
		var r []*Inst
		for _, in := range t.Insts {
			if in.Kind == "simproc" && strings.HasPrefix(in.Token, name+".v") {
				r = append(r, in)
			}
		}
		return r
	}
	for _, c := range calls {
		if c.RetSeq < 0 {
			break
		}
		switch c.Op {
		case "update", "reload":
			n := 0
			fmt.Sscanf(c.Desc[strings.LastIndexByte(c.Desc, ',')+1:], "%d", &n)
			if n >= len(sc.Updates) {
				continue
			}
			next := sc.Updates[n]
			if c.Err != "" {
				add("valid-update-rejected", "", fmt.Sprintf("%s failed: %s", c.Desc, c.Err), c.RetSeq)
				return vs
			}
			got, _ := c.Data.(map[string]string)
			diff := statusDiff(wantStatus(cur, next), got)
			if len(diff) > 0 {
				add("wrong-update-status", strings.SplitN(diff[0], ":", 2)[1], fmt.Sprintf("%s returned %v: %s", c.Desc, got, strings.Join(diff, "; ")), c.RetSeq)
				return vs
			}
			prev, cur, last = cur, next, c
		case "audit":
			a, ok := c.Data.(*Audit)
			if !ok || a == nil {
				continue
			}
			where := "initially"
			if last != nil {
				where = "after " + last.Desc
			}
			var want []string
			for _, q := range cur.Procs {
				want = append(want, q.Name)
			}
			sort.Strings(want)
			got := append([]string{}, a.Names...)
			sort.Strings(got)
			if a.NamesErr != "" || a.StatesErr != "" {
				add("listing-failed", "", fmt.Sprintf("%s: listing the processes failed: %s %s", where, a.NamesErr, a.StatesErr), c.RetSeq)
				return vs
			}
			if !eqStrs(got, want) {
				add("wrong-process-set", "", fmt.Sprintf("%s the processes listed are %v; the configuration has %v", where, got, want), c.RetSeq)
				return vs
			}
			var stNames []string
			stBy := map[string]StateLite{}
			for _, st := range a.States {
				stNames = append(stNames, st.Name)
				stBy[st.Name] = st
			}
			sort.Strings(stNames)
			if !eqStrs(stNames, want) {
				add("wrong-state-set", "", fmt.Sprintf("%s the states reported are of %v; the configuration has %v", where, stNames, want), c.RetSeq)
				return vs
			}
			for nm, e := range a.Gone {
				if e == "" && cur.Proc(nm) == nil {
					add("removed-process-still-has-state", "", fmt.Sprintf("%s %s is not configured anymore but GetProcessState(%s) still answers", where, nm, nm), c.RetSeq)
					return vs
				}
			}
			// every configured process runs its current configuration
			for _, q := range cur.Procs {
				if q.Disabled {
					if in := liveProc(q.Name, c.CallSeq); in != nil {
						add("disabled-process-running", "", fmt.Sprintf("%s %s is disabled in the configuration but its command (pid %d) is alive", where, q.Name, in.Pid), c.RetSeq)
						return vs
					}
					continue
				}
				inf := a.Infos[q.Name]
				if inf.Err != "" {
					add("process-without-config", "", fmt.Sprintf("%s GetProcessInfo(%s) failed: %s", where, q.Name, inf.Err), c.RetSeq)
					return vs
				}
				if !hasStr(strings.Fields(inf.Command+" "+strings.Join(inf.Args, " ")), q.Token) {
					add("config-not-the-new-one", "command", fmt.Sprintf("%s the command reported for %s is %q; the configuration says simproc %s", where, q.Name, inf.Command, q.Token), c.RetSeq)
					return vs
				}
				live := liveProc(q.Name, c.CallSeq)
				finite := sc.Scripts[q.Name+".*"] != nil && sc.Scripts[q.Name+".*"].Launches[0].LifeMs >= 0
				if live == nil {
					if finite || len(q.DependsOn) > 0 {
						continue
					}
					// the audit is not atomic: a command launched at the very instant of the audit
					// (an update that has just returned) may not be there yet
					starting := false
					for _, in := range instsOf(q.Name) {
						if in.ExecT >= c.CallT && in.ExecT <= c.RetT {
							starting = true
						}
					}
					if starting {
						continue
					}
					add("process-not-running", "", fmt.Sprintf("%s %s has no live command; it is reported %s", where, q.Name, stBy[q.Name].Status), c.RetSeq)
					return vs
				}
				if live.Token != q.Token {
					add("old-instance-still-running", "", fmt.Sprintf("%s %s still runs %q (pid %d); its configuration says simproc %s", where, q.Name, live.Token, live.Pid, q.Token), c.RetSeq)
					return vs
				}
				for _, kv := range q.Env {
					k := kv[:strings.IndexByte(kv, '=')]
					if v, _ := envOf(live, k); v != kv[len(k)+1:] {
						add("launched-with-old-configuration", "env", fmt.Sprintf("%s the command of %s (pid %d) has %s=%q; its configuration says %s", where, q.Name, live.Pid, k, v, kv), live.ExecSeq)
						return vs
					}
				}
				if q.WorkingDir != "" && live.Dir != q.WorkingDir && !strings.HasSuffix(live.Dir, "/"+q.WorkingDir) {
					add("launched-with-old-configuration", "dir", fmt.Sprintf("%s the command of %s (pid %d) runs in %q; its configuration says %s", where, q.Name, live.Pid, live.Dir, q.WorkingDir), live.ExecSeq)
					return vs
				}
				if st := stBy[q.Name]; st.Status != "Running" || st.Pid != live.Pid {
					busy := false
					for _, in := range instsOf(q.Name) {
						if (in.ExecT >= c.CallT && in.ExecT <= c.RetT) || (in.ExitSeq >= 0 && in.ExitT >= c.CallT && in.ExitT <= c.RetT) {
							busy = true
						}
					}
					if !busy {
						add("state-not-of-the-running-instance", "status="+st.Status, fmt.Sprintf("%s %s runs as pid %d but its state says %s pid %d", where, q.Name, live.Pid, st.Status, st.Pid), c.RetSeq)
						return vs
					}
				}
			}
			if last == nil || prev == nil {
				continue
			}
			lo, hi := last.CallSeq, c.CallSeq
			for _, o := range prev.Procs {
				q := cur.Proc(o.Name)
				switch {
				case q == nil: // removed
					if in := liveProc(o.Name, hi); in != nil {
						add("removed-process-alive", "", fmt.Sprintf("%s: %s was removed from the configuration but its command (pid %d) is still alive %v later", last.Desc, o.Name, in.Pid, c.CallT-last.RetT), hi)
						return vs
					}
				case launchKey(o) == launchKey(q): // unchanged
					for _, in := range instsOf(o.Name) {
						for _, kl := range in.Kills {
							if kl.Seq >= lo && kl.Seq <= hi {
								add("unchanged-process-signalled", "", fmt.Sprintf("%s: the configuration of %s did not change but its command (pid %d) was sent signal %d", last.Desc, o.Name, in.Pid, kl.Sig), kl.Seq)
								return vs
							}
						}
						if in.ExecSeq > lo && in.ExecSeq <= hi && o.Restart == "" && liveProc(o.Name, lo) != nil {
							add("unchanged-process-relaunched", "", fmt.Sprintf("%s: the configuration of %s did not change but it was launched again (pid %d)", last.Desc, o.Name, in.Pid), in.ExecSeq)
							return vs
						}
					}
				default: // changed: the old instance is terminated, a new one launched
					for _, in := range instsOf(o.Name) {
						if in.ExecSeq < lo && in.AliveAt(hi) {
							add("old-instance-still-running", "", fmt.Sprintf("%s: the configuration of %s changed but the old command (pid %d, %s) is still alive", last.Desc, o.Name, in.Pid, in.Token), hi)
							return vs
						}
					}
				}
			}
			for _, q := range cur.Procs {
				if prev.Proc(q.Name) == nil && !q.Disabled && len(q.DependsOn) == 0 {
					n := 0
					for _, in := range instsOf(q.Name) {
						if in.ExecSeq > lo && in.ExecSeq <= hi {
							n++
						}
					}
					if n == 0 {
						add("added-process-not-launched", "", fmt.Sprintf("%s: %s was added to the configuration but no command of it was launched", last.Desc, q.Name), hi)
						return vs
					}
				}
			}
			last = nil
		}
	}
	return vs
}

// checkC14Launches: every command launched outside an update request belongs to the
// configuration in force at that instant (that of the last update that returned)
func checkC14Launches(sc *Scenario, t *Truth) []Violation {
	var vs []Violation
	type span struct {
		call *Call
		spec *ProjectSpec
	}
	var ups []span
	for _, c := range t.Calls {
		if c.Client == "updater" && (c.Op == "update" || c.Op == "reload") {
			n := 0
			fmt.Sscanf(c.Desc[strings.LastIndexByte(c.Desc, ',')+1:], "%d", &n)
			if n < len(sc.Updates) {
				ups = append(ups, span{c, sc.Updates[n]})
			}
		}
	}
	// a process that an update removed is not probed any more (a prober that was still waiting
	// out its initial delay must not start afterwards)
	for _, in := range t.Insts {
		if in.Kind != "simprobe" {
			continue
		}
		for _, u := range ups {
			if u.call.RetSeq >= 0 && u.call.Err == "" && u.spec.Proc(in.Token) == nil && sc.Project.Proc(in.Token) != nil && in.ExecT > u.call.RetT+2*time.Second {
				gone := true
				for _, u2 := range ups {
					if u2.call.CallSeq > u.call.CallSeq && u2.spec.Proc(in.Token) != nil {
						gone = false // (added again later)
					}
				}
				if gone {
					vs = append(vs, Violation{"C14", "removed-process-still-probed", "", fmt.Sprintf("%s was removed by %s (returned at t=%v) but its probe command was run at t=%v", in.Token, u.call.Desc, u.call.RetT, in.ExecT), in.ExecSeq})
					return vs
				}
			}
		}
	}
	for _, in := range t.Insts {
		if in.Kind != "simproc" {
			continue
		}
		i := strings.Index(in.Token, ".v")
		if i < 0 {
			continue
		}
		name := in.Token[:i]
		// the new instance comes after the old one, never beside it
		if p0 := sc.Project.Proc(name); p0 != nil && p0.Replicas <= 1 {
			for _, o := range t.Insts {
				if o != in && o.Kind == "simproc" && strings.HasPrefix(o.Token, name+".v") && o.AliveAt(in.ExecSeq) && o.ExecSeq < in.ExecSeq {
					vs = append(vs, Violation{"C14", "two-instances-side-by-side", "", fmt.Sprintf("%s was launched at t=%v (pid %d, %s) while its previous command (pid %d, %s) was still alive", name, in.ExecT, in.Pid, in.Token, o.Pid, o.Token), in.ExecSeq})
					return vs
				}
			}
		}
		force := sc.Project
		var after *Call
		busy := false
		for _, u := range ups {
			if u.call.RetSeq >= 0 && u.call.RetSeq < in.ExecSeq {
				force, after = u.spec, u.call
			} else if u.call.CallSeq < in.ExecSeq {
				busy = true // launched while an update was under way
			}
		}
		if busy || after == nil {
			continue
		}
		q := force.Proc(name)
		if q == nil {
			vs = append(vs, Violation{"C14", "removed-process-launched", "", fmt.Sprintf("%s was removed by %s (returned at t=%v) but a command of it (pid %d, %s) was launched at t=%v", name, after.Desc, after.RetT, in.Pid, in.Token, in.ExecT), in.ExecSeq})
			return vs
		}
		bad := ""
		if in.Token != q.Token {
			bad = fmt.Sprintf("command simproc %s instead of simproc %s", in.Token, q.Token)
		}
		if q.UseEntry && bad == "" {
			exe := q.Exe
			if exe == "" {
				exe = "simproc"
			}
			if !strings.HasPrefix(in.Args, exe+" ") {
				bad = fmt.Sprintf("the command line %q instead of the executable %s", in.Args, exe)
			}
		}
		for _, kv := range q.Env {
			k := kv[:strings.IndexByte(kv, '=')]
			if v, _ := envOf(in, k); v != kv[len(k)+1:] && bad == "" {
				bad = fmt.Sprintf("%s=%q instead of %s", k, v, kv)
			}
		}
		if q.WorkingDir != "" && in.Dir != q.WorkingDir && !strings.HasSuffix(in.Dir, "/"+q.WorkingDir) && bad == "" {
			bad = fmt.Sprintf("directory %q instead of %s", in.Dir, q.WorkingDir)
		}
		if q.Disabled && bad == "" {
			bad = "although it is disabled"
		}
		if bad != "" {
			vs = append(vs, Violation{"C14", "launched-with-old-configuration", "later", fmt.Sprintf("after %s (returned at t=%v) %s was launched at t=%v with %s", after.Desc, after.RetT, name, in.ExecT, bad), in.ExecSeq})
			return vs
		}
	}
	return vs
}

// checkC14Race: two update requests overlap; the outcome must be that of one of the two orders
func checkC14Race(sc *Scenario, t *Truth) []Violation {
	var vs []Violation
	var x [2]*Call
	var final *Call
	for _, c := range t.Calls {
		switch {
		case c.Client == "x1" && c.Op == "update":
			x[0] = c
		case c.Client == "x2" && c.Op == "update":
			x[1] = c
		case c.Client == "updater" && c.Op == "audit":
			final = c
		}
	}
	if x[0] == nil || x[1] == nil || final == nil || x[0].RetSeq < 0 || x[1].RetSeq < 0 || final.RetSeq < 0 || x[0].RetSeq > final.CallSeq || x[1].RetSeq > final.CallSeq {
		return nil
	}
	a, ok := final.Data.(*Audit)
	if !ok || a == nil || len(sc.Updates) < 2 || strings.HasPrefix(x[0].Err, "harness:") || strings.HasPrefix(x[1].Err, "harness:") {
		return nil
	}
	if x[0].Err != "" || x[1].Err != "" {
		return []Violation{{"C14", "valid-update-rejected", "concurrent", fmt.Sprintf("overlapping updates failed: %q / %q", x[0].Err, x[1].Err), final.RetSeq}}
	}
	got := append([]string{}, a.Names...)
	sort.Strings(got)
	st := [2]map[string]string{}
	st[0], _ = x[0].Data.(map[string]string)
	st[1], _ = x[1].Data.(map[string]string)
	for first := 0; first < 2; first++ {
		second := 1 - first
		if !eqStrs(got, specNames(sc.Updates[second])) {
			continue
		}
		if len(statusDiff(wantStatus(sc.Project, sc.Updates[first]), st[first])) == 0 && len(statusDiff(wantStatus(sc.Updates[first], sc.Updates[second]), st[second])) == 0 {
			return nil
		}
	}
	vs = append(vs, Violation{"C14", "concurrent-updates-not-serialisable", "", fmt.Sprintf("two overlapping updates to %v and %v (from %v) returned %v and %v and left %v: not the outcome of either order", specNames(sc.Updates[0]), specNames(sc.Updates[1]), specNames(sc.Project), st[0], st[1], got), final.RetSeq})
	return vs
}

// genC14Replicas: an update that changes a replicated process replaces every replica
func genC14Replicas(r *R, sc *Scenario) {
	spec := &ProjectSpec{}
	sc.Project = spec
	sc.Scripts = map[string]*TokenScript{}
	n := r.Range(2, 3)
	spec.Procs = append(spec.Procs, &ProcSpec{Name: "rp", Token: "rp.v0", Replicas: n}, &ProcSpec{Name: "u0", Token: "u0.v0"})
	life := simos.Script{LifeMs: -1, TermLagMs: Pick(r, 0, 10, 200)}
	sc.Scripts["rp.*"] = &TokenScript{Launches: []simos.Script{life}}
	sc.Scripts["u0.*"] = &TokenScript{Launches: []simos.Script{life}}
	up := cloneSpec(spec)
	if r.P(500) {
		up.Procs[0].Token = "rp.v1"
	} else {
		up.Procs[0].Env = []string{"K=new"}
	}
	sc.Updates = []*ProjectSpec{up}
	sc.Clients = []Client{{Name: "updater", Ops: []Op{{AtMs: Pick(r, 1500, 2500), Op: Pick(r, "update", "reload"), N: 0}}}}
	sc.Strategy = genStrategy(r)
	sc.Strategy.StallPermille = 0
	sc.IterMode = Pick(r, 0, 1, 2, 3)
	sc.RunForMs = 8000
	sc.QuietMs = 1000
	sc.Arm = "replicas"
}

// checkC14Replicas: after the update every replica runs the new configuration, under its
// own replica number, and nothing of the old one is left
func checkC14Replicas(sc *Scenario, t *Truth) []Violation {
	var vs []Violation
	var up *Call
	for _, c := range t.Calls {
		if c.Client == "updater" {
			up = c
		}
	}
	if up == nil || up.RetSeq < 0 {
		return nil
	}
	if up.Err != "" {
		return []Violation{{"C14", "valid-update-rejected", "replicas", fmt.Sprintf("%s failed: %s", up.Desc, up.Err), up.RetSeq}}
	}
	want := sc.Updates[0].Procs[0]
	end := t.EndSeq
	if sd := t.firstShutdownSeq(sc); sd >= 0 {
		end = sd
	}
	liveNew := map[string]bool{}
	for _, in := range t.Insts {
		if in.Kind != "simproc" || !strings.HasPrefix(in.Token, "rp.v") || !in.AliveAt(end-1) {
			continue
		}
		k, _ := envOf(in, "PC_REPLICA_NUM")
		isNew := in.Token == want.Token
		for _, kv := range want.Env {
			if v, _ := envOf(in, kv[:strings.IndexByte(kv, '=')]); v != kv[strings.IndexByte(kv, '=')+1:] {
				isNew = false
			}
		}
		if !isNew || in.ExecSeq < up.CallSeq {
			vs = append(vs, Violation{"C14", "replica-not-updated", "", fmt.Sprintf("after %s (returned at t=%v) replica %s of rp still runs the command launched at t=%v with the old configuration (pid %d, %s)", up.Desc, up.RetT, k, in.ExecT, in.Pid, in.Token), up.RetSeq})
			return vs
		}
		if liveNew[k] {
			vs = append(vs, Violation{"C14", "replica-not-updated", "twice", fmt.Sprintf("after %s two commands of replica %s of rp are alive", up.Desc, k), up.RetSeq})
			return vs
		}
		liveNew[k] = true
	}
	for k := 0; k < want.Replicas; k++ {
		if !liveNew[fmt.Sprint(k)] {
			vs = append(vs, Violation{"C14", "replica-not-updated", "missing", fmt.Sprintf("after %s (returned at t=%v) no command of replica %d of rp runs with the new configuration", up.Desc, up.RetT, k), up.RetSeq})
			return vs
		}
	}
	return vs
}

// genC14Overlap: a live update overlaps another request for the process it changes - a restart
// that is waiting out its back-off (it must launch the configuration in force by then), or a
// stop that is still waiting for a slow command to die (the new instance comes after the old
// one, never beside it)
func genC14Overlap(r *R, sc *Scenario) {
	spec := &ProjectSpec{}
	sc.Project = spec
	sc.Scripts = map[string]*TokenScript{}
	spec.Procs = append(spec.Procs, &ProcSpec{Name: "u0", Token: "u0.v0"}, &ProcSpec{Name: "u1", Token: "u1.v0"})
	sc.Scripts["u1.*"] = &TokenScript{Launches: []simos.Script{{LifeMs: -1}}}
	up := cloneSpec(spec)
	up.Procs[0].Token = "u0.v1"
	if r.P(400) {
		up.Procs[0].Env = []string{"K=new"}
	}
	sc.Updates = []*ProjectSpec{up}
	at := Pick(r, 2000, 3000)
	if r.P(500) {
		// restart of a running process; the update lands while the restart waits out its
		// back-off, and the instance the update launches has ended when the restart launches
		long := simos.Script{LifeMs: -1, TermLagMs: Pick(r, 0, 10)}
		short := simos.Script{LifeMs: Pick(r, 100, 300), Exit: 0}
		sc.Scripts["u0.v0"] = &TokenScript{Launches: []simos.Script{long, long}}
		sc.Scripts["u0.v1"] = &TokenScript{Launches: []simos.Script{short, long}}
		sc.Clients = []Client{{Name: "rs", Ops: []Op{{AtMs: at, Op: "restart", Arg: "u0"}}}, {Name: "updater", Ops: []Op{{AtMs: at + Pick(r, 200, 400, 500), Op: Pick(r, "update", "reload"), N: 0}}}}
		sc.Arm = "restartrace"
	} else {
		// stop of a command that takes its time to die; the update lands while it is dying
		slow := simos.Script{LifeMs: -1, TermLagMs: Pick(r, 1000, 2000)}
		sc.Scripts["u0.*"] = &TokenScript{Launches: []simos.Script{slow, slow, slow}}
		sc.Clients = []Client{{Name: "st", Ops: []Op{{AtMs: at, Op: "stop", Arg: "u0"}}}, {Name: "updater", Ops: []Op{{AtMs: at + Pick(r, 100, 300, 600), Op: Pick(r, "update", "reload"), N: 0}}}}
		sc.Arm = "slowdying"
	}
	sc.Strategy = genStrategy(r)
	sc.Strategy.StallPermille = 0
	sc.IterMode = Pick(r, 0, 1, 2, 3)
	sc.RunForMs = at + 6000
	sc.QuietMs = 1000
}

func genC14(r *R, sc *Scenario, tier string) {
	if r.P(60) {
		genC14Replicas(r, sc)
		return
	}
	if r.P(120) {
		genC14Overlap(r, sc)
		return
	}
	spec := &ProjectSpec{}
	sc.Project = spec
	sc.Scripts = map[string]*TokenScript{}
	sc.Dirs = []string{"d1", "d2"}
	n := r.Range(1, 5)
	mk := func(name string) *ProcSpec {
		p := &ProcSpec{Name: name, Token: name + ".v0"}
		life := -1
		if r.P(150) {
			life = Pick(r, 200, 700)
		}
		sc.Scripts[name+".*"] = &TokenScript{Launches: []simos.Script{{LifeMs: life, TermLagMs: Pick(r, 0, 0, 10, 200), ExitOnSig: Pick(r, 0, 143),
			Out: []simos.OutChunk{{AtMs: 1, Stream: 1, Data: "I am %T now\n"}}}}}
		if r.P(400) {
			p.Env = []string{"K=" + Pick(r, "a", "b", "-Xmx1g -Dmode=a", "-Xmx1g -Dmode=a")}
			if r.P(300) {
				p.Env = append(p.Env, "L=1")
			}
		}
		if len(p.Env) == 0 && r.P(200) {
			// present but empty: not the same thing as absent once it has travelled as JSON
			p.RawYAML = "    environment: []\n"
		} else if r.P(150) {
			// its own log file, time-stamped in the default format: what the logger makes of
			// that is its own business, the stored configuration stays what the file says
			p.RawYAML = "    log_location: " + name + ".log\n    log_configuration:\n      add_timestamp: true\n"
		}
		if r.P(250) {
			p.WorkingDir = Pick(r, "d1", "d2")
		}
		if r.P(200) && life < 0 {
			p.Restart = Pick(r, "on_failure", "always")
		}
		if r.P(200) {
			// keeps exiting and waiting out its back-off: updates find it between two launches
			ts := sc.Scripts[name+".*"]
			ts.Launches[0].LifeMs, ts.Launches[0].Exit = Pick(r, 300, 800), 1
			p.Restart = "always"
			p.Backoff = iptr(Pick(r, 2, 3))
		}
		if r.P(120) {
			p.Disabled = true
		}
		if r.P(200) {
			p.UseEntry = true // entrypoint: [executable, token] instead of a shell command
		}
		if r.P(150) {
			p.Readiness = &ProbeSpec{Token: name, Period: iptr(Pick(r, 1, 2))}
			if r.P(400) {
				p.Readiness.InitialDelay = iptr(Pick(r, 3, 5, 8)) // updates meet a prober that still waits
			}
		} else if p.Disabled && r.P(500) {
			// (never started, so the probe never opens a socket: only its configuration travels)
			p.Readiness = &ProbeSpec{Token: name, HTTP: &HTTPSpec{Host: "localhost", Path: "/h", Port: "8080"}}
		}
		sc.Scripts["simprobe:"+name] = &TokenScript{Launches: []simos.Script{{LifeMs: 10, Exit: 0}}}
		return p
	}
	for i := 0; i < n; i++ {
		p := mk(fmt.Sprintf("u%d", i))
		if i > 0 && r.P(200) {
			if d := spec.Procs[r.Intn(i)]; !d.Disabled {
				p.DependsOn = map[string]string{d.Name: "process_started"}
			}
		}
		spec.Procs = append(spec.Procs, p)
	}
	nup := r.Range(1, 3)
	cur := spec
	next := n
	var ops []Op
	at := 1500
	ops = append(ops, Op{AtMs: at, Op: "audit"})
	for u := 0; u < nup; u++ {
		np := cloneSpec(cur)
		var kept []*ProcSpec
		var gone []string
		for _, p := range np.Procs {
			switch {
			case r.P(200) && len(np.Procs) > 1:
				gone = append(gone, p.Name)
				continue
			case r.P(350):
				// change something that reaches the command or decides about its launches
				switch r.Intn(14) {
				case 12, 13:
					// nothing but a detail of the restart policy changes
					if len(p.DependsOn) == 0 && r.P(600) {
						p.ExitOnSkipped = !p.ExitOnSkipped // (never skipped: it waits for nothing)
					} else {
						p.MaxRestarts = u + 3
					}
				case 9:
					// nothing but the executable changes
					if p.UseEntry {
						if p.Exe == "simprocB" {
							p.Exe = ""
						} else {
							p.Exe = "simprocB"
						}
					} else {
						p.Token = fmt.Sprintf("%s.v%d", p.Name, u+1)
					}
				case 10:
					p.ParentOnly = !p.ParentOnly // nothing but how it is to be stopped
				case 11:
					p.StopTimeout = iptr(u + 2)
				case 7, 8:
					// a dependency changes its condition, or is swapped for another one
					var cands []string
					for _, o := range np.Procs {
						if o.Name < p.Name && !o.Disabled && !hasStr(gone, o.Name) {
							cands = append(cands, o.Name)
						}
					}
					switch {
					case p.ExitOnSkipped:
						p.Backoff = iptr(u + 5)
					case len(p.DependsOn) > 0 && r.P(500):
						for d, c := range p.DependsOn {
							if c == "process_started" {
								p.DependsOn[d] = "process_completed"
							} else {
								p.DependsOn[d] = "process_started"
							}
						}
					case len(p.DependsOn) > 0 && len(cands) > 1:
						for d := range p.DependsOn {
							delete(p.DependsOn, d)
						}
						p.DependsOn[cands[r.Intn(len(cands))]] = "process_started"
					case len(cands) > 0:
						p.DependsOn = map[string]string{cands[r.Intn(len(cands))]: "process_started"}
					default:
						p.Backoff = iptr(u + 5)
					}
				case 5:
					if p.Readiness != nil && p.Readiness.HTTP != nil {
						p.Backoff = iptr(u + 7) // (it stays disabled: its probe would open a real socket)
					} else {
						p.Disabled = !p.Disabled
					}
				case 6:
					if p.Readiness == nil {
						p.Readiness = &ProbeSpec{Token: p.Name, Period: iptr(Pick(r, 1, 2))}
					} else if r.P(500) {
						p.Readiness = nil
					} else if p.Readiness.Period == nil {
						p.Readiness.Period = iptr(2)
					} else {
						p.Readiness.Period = iptr(*p.Readiness.Period + 1)
					}
				case 0:
					p.Token = fmt.Sprintf("%s.v%d", p.Name, u+1)
				case 1:
					p.Env = []string{"K=" + Pick(r, "c", "d", "e") + fmt.Sprint(u)}
					if r.P(600) {
						// a value with '=' in it; only what follows the second '=' changes
						p.Env = []string{"K=-Xmx1g -Dmode=" + Pick(r, "c", "d", "e") + fmt.Sprint(u)}
						if len(p.Env) > 0 && r.P(500) {
							for _, o := range cur.Procs {
								if o.Name == p.Name && len(o.Env) == 1 && !strings.Contains(o.Env[0], "-Dmode=") {
									break
								}
							}
						}
					}
					p.RawYAML = ""
				case 2:
					if p.WorkingDir == "d1" {
						p.WorkingDir = "d2"
					} else {
						p.WorkingDir = "d1"
					}
				case 3:
					if p.Restart == "" {
						p.Restart = "on_failure"
					} else {
						p.Restart = ""
					}
				case 4:
					p.Backoff = iptr(u + 2)
				}
			}
			kept = append(kept, p)
		}
		// dependencies on removed processes go with them
		for _, p := range kept {
			for d := range p.DependsOn {
				if hasStr(gone, d) {
					delete(p.DependsOn, d)
				}
			}
			if len(p.DependsOn) == 0 {
				p.DependsOn = nil
			}
		}
		np.Procs = kept
		for k := r.Intn(3); k > 0; k-- {
			np.Procs = append(np.Procs, mk(fmt.Sprintf("u%d", next)))
			next++
		}
		if r.P(150) {
			np = cloneSpec(cur) // an update with the very same configuration
			gone = nil
		}
		sc.Updates = append(sc.Updates, np)
		at += Pick(r, 1500, 2000, 3000)
		ops = append(ops, Op{AtMs: at, Op: Pick(r, "update", "update", "reload"), N: u})
		at += 1500
		ops = append(ops, Op{AtMs: at, Op: "audit", Args: gone})
		cur = np
	}
	if r.P(200) && n >= 2 {
		// two overlapping updates; the first one takes a while (a removed process dies slowly)
		sc.Arm = "updaterace"
		slow := spec.Procs[0]
		if ts := sc.Scripts[slow.Name+".*"]; ts != nil {
			ts.Launches[0].LifeMs, ts.Launches[0].Exit, ts.Launches[0].TermLagMs = -1, 0, Pick(r, 500, 1000, 2000)
		}
		slow.Restart, slow.Backoff, slow.Disabled, slow.DependsOn = "", nil, false, nil
		if slow.Readiness != nil && slow.Readiness.HTTP != nil {
			slow.Readiness = nil // (it runs now: no probe that would open a real socket)
		}
		sc.Updates = nil
		for k := 0; k < 2; k++ {
			np := cloneSpec(spec)
			np.Procs = np.Procs[1:] // both remove the slow one
			for _, q := range np.Procs {
				delete(q.DependsOn, slow.Name)
				if len(q.DependsOn) == 0 {
					q.DependsOn = nil
				}
			}
			np.Procs = append(np.Procs, mk(fmt.Sprintf("n%d", k)))
			if r.P(400) && len(np.Procs) > 2 {
				drop := np.Procs[1].Name
				np.Procs = append(np.Procs[:1], np.Procs[2:]...)
				for _, q := range np.Procs {
					delete(q.DependsOn, drop)
					if len(q.DependsOn) == 0 {
						q.DependsOn = nil
					}
				}
			}
			sc.Updates = append(sc.Updates, np)
		}
		d := Pick(r, 0, 100, 300)
		sc.Clients = append(sc.Clients, Client{Name: "x1", Ops: []Op{{AtMs: 2000, Op: "update", N: 0}}}, Client{Name: "x2", Ops: []Op{{AtMs: 2000 + d, Op: "update", N: 1}}})
		at = 7000
		ops = []Op{{AtMs: 1500, Op: "audit"}, {AtMs: at, Op: "audit"}}
	}
	sc.Clients = append(sc.Clients, Client{Name: "updater", Ops: ops})
	if r.P(300) {
		var pops []Op
		for x := 700; x < at; x += Pick(r, 300, 700, 1100) {
			pops = append(pops, Op{AtMs: x, Op: Pick(r, "states", "projstate", "names")})
		}
		sc.Clients = append(sc.Clients, Client{Name: "poll", Ops: pops})
	}
	sc.Strategy = genStrategy(r)
	sc.Strategy.StallPermille = 0
	sc.IterMode = Pick(r, 0, 0, 1, 2, 3)
	sc.IterRot = r.Intn(7)
	sc.RunForMs = at + 4000
	sc.QuietMs = 1000
	if sc.Arm == "" {
		sc.Arm = "update"
	}
}
