package harness

import (
	"fmt"
	"sort"
	"strings"

	"verifrt/simos"
)

// ---- C14: live project update ----

// launchKey renders what of a process specification reaches its command: token (command
// line), environment, working directory, and what decides about launches (policy, probes,
// dependencies). Two specifications with equal keys are "unchanged".
func launchKey(p *ProcSpec) string {
	deps := []string{}
	for k, v := range p.DependsOn {
		deps = append(deps, k+":"+v)
	}
	sort.Strings(deps)
	probe := func(q *ProbeSpec) string {
		if q == nil {
			return "-"
		}
		i := func(v *int) string {
			if v == nil {
				return "_"
			}
			return fmt.Sprint(*v)
		}
		return q.Token + "/" + i(q.InitialDelay) + "/" + i(q.Period) + "/" + i(q.Timeout) + "/" + i(q.SuccessThreshold) + "/" + i(q.FailureThreshold)
	}
	b := "_"
	if p.Backoff != nil {
		b = fmt.Sprint(*p.Backoff)
	}
	return strings.Join([]string{p.Token, strings.Join(p.Env, ","), p.WorkingDir, p.Restart, b, fmt.Sprint(p.MaxRestarts), probe(p.Readiness), probe(p.Liveness), strings.Join(deps, ","), fmt.Sprint(p.Disabled), p.ReadyLine}, "|")
}

func cloneSpec(p *ProjectSpec) *ProjectSpec {
	c := *p
	c.Procs = nil
	for _, q := range p.Procs {
		d := *q
		d.Env = append([]string{}, q.Env...)
		if q.DependsOn != nil {
			d.DependsOn = map[string]string{}
			for k, v := range q.DependsOn {
				d.DependsOn[k] = v
			}
		}
		if q.Readiness != nil {
			r := *q.Readiness
			d.Readiness = &r
		}
		c.Procs = append(c.Procs, &d)
	}
	return &c
}

func checkC14(sc *Scenario, res *RunResult, t *Truth) []Violation {
	var vs []Violation
	add := func(class, disc, msg string, seq int) {
		vs = append(vs, Violation{"C14", class, disc, msg, seq})
	}
	cur := sc.Project
	var calls []*Call
	for _, c := range t.Calls {
		if c.Client == "updater" {
			calls = append(calls, c)
		}
	}
	sort.Slice(calls, func(i, j int) bool { return calls[i].Idx < calls[j].Idx })
	var last *Call
	var prev *ProjectSpec
	// live command of a process: any token "<name>.v<k>"
	liveProc := func(name string, seq int) *Inst {
		var live *Inst
		for _, in := range t.Insts {
			if in.Kind == "simproc" && strings.HasPrefix(in.Token, name+".v") && in.AliveAt(seq) {
				live = in
			}
		}
		return live
	}
	instsOf := func(name string) []*Inst {
		var r []*Inst
		for _, in := range t.Insts {
			if in.Kind == "simproc" && strings.HasPrefix(in.Token, name+".v") {
				r = append(r, in)
			}
		}
		return r
	}
	for _, c := range calls {
		if c.RetSeq < 0 {
			break
		}
		switch c.Op {
		case "update":
			n := 0
			fmt.Sscanf(c.Desc[strings.LastIndexByte(c.Desc, ',')+1:], "%d", &n)
			if n >= len(sc.Updates) {
				continue
			}
			next := sc.Updates[n]
			if c.Err != "" {
				add("valid-update-rejected", "", fmt.Sprintf("%s failed: %s", c.Desc, c.Err), c.RetSeq)
				return vs
			}
			want := map[string]string{}
			for _, q := range next.Procs {
				if o := cur.Proc(q.Name); o == nil {
					want[q.Name] = "added"
				} else if launchKey(o) != launchKey(q) {
					want[q.Name] = "updated"
				}
			}
			for _, o := range cur.Procs {
				if next.Proc(o.Name) == nil {
					want[o.Name] = "removed"
				}
			}
			got, _ := c.Data.(map[string]string)
			var diff []string
			for k, v := range want {
				if got[k] != v {
					diff = append(diff, fmt.Sprintf("%s: want %s got %q", k, v, got[k]))
				}
			}
			for k, v := range got {
				if _, ok := want[k]; !ok {
					diff = append(diff, fmt.Sprintf("%s: want nothing got %q", k, v))
				}
			}
			sort.Strings(diff)
			if len(diff) > 0 {
				add("wrong-update-status", strings.SplitN(diff[0], ":", 2)[1], fmt.Sprintf("%s returned %v: %s", c.Desc, got, strings.Join(diff, "; ")), c.RetSeq)
				return vs
			}
			prev, cur, last = cur, next, c
		case "audit":
			a, ok := c.Data.(*Audit)
			if !ok || a == nil {
				continue
			}
			where := "initially"
			if last != nil {
				where = "after " + last.Desc
			}
			var want []string
			for _, q := range cur.Procs {
				want = append(want, q.Name)
			}
			sort.Strings(want)
			got := append([]string{}, a.Names...)
			sort.Strings(got)
			if a.NamesErr != "" || a.StatesErr != "" {
				add("listing-failed", "", fmt.Sprintf("%s: listing the processes failed: %s %s", where, a.NamesErr, a.StatesErr), c.RetSeq)
				return vs
			}
			if !eqStrs(got, want) {
				add("wrong-process-set", "", fmt.Sprintf("%s the processes listed are %v; the configuration has %v", where, got, want), c.RetSeq)
				return vs
			}
			var stNames []string
			stBy := map[string]StateLite{}
			for _, st := range a.States {
				stNames = append(stNames, st.Name)
				stBy[st.Name] = st
			}
			sort.Strings(stNames)
			if !eqStrs(stNames, want) {
				add("wrong-state-set", "", fmt.Sprintf("%s the states reported are of %v; the configuration has %v", where, stNames, want), c.RetSeq)
				return vs
			}
			for nm, e := range a.Gone {
				if e == "" && cur.Proc(nm) == nil {
					add("removed-process-still-has-state", "", fmt.Sprintf("%s %s is not configured anymore but GetProcessState(%s) still answers", where, nm, nm), c.RetSeq)
					return vs
				}
			}
			// every configured process runs its current configuration
			for _, q := range cur.Procs {
				if q.Disabled {
					if in := liveProc(q.Name, c.CallSeq); in != nil {
						add("disabled-process-running", "", fmt.Sprintf("%s %s is disabled in the configuration but its command (pid %d) is alive", where, q.Name, in.Pid), c.RetSeq)
						return vs
					}
					continue
				}
				inf := a.Infos[q.Name]
				if inf.Err != "" {
					add("process-without-config", "", fmt.Sprintf("%s GetProcessInfo(%s) failed: %s", where, q.Name, inf.Err), c.RetSeq)
					return vs
				}
				if !hasStr(strings.Fields(inf.Command+" "+strings.Join(inf.Args, " ")), q.Token) {
					add("config-not-the-new-one", "command", fmt.Sprintf("%s the command reported for %s is %q; the configuration says simproc %s", where, q.Name, inf.Command, q.Token), c.RetSeq)
					return vs
				}
				live := liveProc(q.Name, c.CallSeq)
				finite := sc.Scripts[q.Name+".*"] != nil && sc.Scripts[q.Name+".*"].Launches[0].LifeMs >= 0
				if live == nil {
					if finite || len(q.DependsOn) > 0 {
						continue
					}
					add("process-not-running", "", fmt.Sprintf("%s %s has no live command; it is reported %s", where, q.Name, stBy[q.Name].Status), c.RetSeq)
					return vs
				}
				if live.Token != q.Token {
					add("old-instance-still-running", "", fmt.Sprintf("%s %s still runs %q (pid %d); its configuration says simproc %s", where, q.Name, live.Token, live.Pid, q.Token), c.RetSeq)
					return vs
				}
				for _, kv := range q.Env {
					k := kv[:strings.IndexByte(kv, '=')]
					if v, _ := envOf(live, k); v != kv[len(k)+1:] {
						add("launched-with-old-configuration", "env", fmt.Sprintf("%s the command of %s (pid %d) has %s=%q; its configuration says %s", where, q.Name, live.Pid, k, v, kv), live.ExecSeq)
						return vs
					}
				}
				if q.WorkingDir != "" && live.Dir != q.WorkingDir && !strings.HasSuffix(live.Dir, "/"+q.WorkingDir) {
					add("launched-with-old-configuration", "dir", fmt.Sprintf("%s the command of %s (pid %d) runs in %q; its configuration says %s", where, q.Name, live.Pid, live.Dir, q.WorkingDir), live.ExecSeq)
					return vs
				}
				if st := stBy[q.Name]; st.Status != "Running" || st.Pid != live.Pid {
					busy := false
					for _, in := range instsOf(q.Name) {
						if (in.ExecT >= c.CallT && in.ExecT <= c.RetT) || (in.ExitSeq >= 0 && in.ExitT >= c.CallT && in.ExitT <= c.RetT) {
							busy = true
						}
					}
					if !busy {
						add("state-not-of-the-running-instance", "status="+st.Status, fmt.Sprintf("%s %s runs as pid %d but its state says %s pid %d", where, q.Name, live.Pid, st.Status, st.Pid), c.RetSeq)
						return vs
					}
				}
			}
			if last == nil || prev == nil {
				continue
			}
			lo, hi := last.CallSeq, c.CallSeq
			for _, o := range prev.Procs {
				q := cur.Proc(o.Name)
				switch {
				case q == nil: // removed
					if in := liveProc(o.Name, hi); in != nil {
						add("removed-process-alive", "", fmt.Sprintf("%s: %s was removed from the configuration but its command (pid %d) is still alive %v later", last.Desc, o.Name, in.Pid, c.CallT-last.RetT), hi)
						return vs
					}
				case launchKey(o) == launchKey(q): // unchanged
					for _, in := range instsOf(o.Name) {
						for _, kl := range in.Kills {
							if kl.Seq >= lo && kl.Seq <= hi {
								add("unchanged-process-signalled", "", fmt.Sprintf("%s: the configuration of %s did not change but its command (pid %d) was sent signal %d", last.Desc, o.Name, in.Pid, kl.Sig), kl.Seq)
								return vs
							}
						}
						if in.ExecSeq > lo && in.ExecSeq <= hi && o.Restart == "" {
							add("unchanged-process-relaunched", "", fmt.Sprintf("%s: the configuration of %s did not change but it was launched again (pid %d)", last.Desc, o.Name, in.Pid), in.ExecSeq)
							return vs
						}
					}
				default: // changed: the old instance is terminated, a new one launched
					for _, in := range instsOf(o.Name) {
						if in.ExecSeq < lo && in.AliveAt(hi) {
							add("old-instance-still-running", "", fmt.Sprintf("%s: the configuration of %s changed but the old command (pid %d, %s) is still alive", last.Desc, o.Name, in.Pid, in.Token), hi)
							return vs
						}
					}
				}
			}
			for _, q := range cur.Procs {
				if prev.Proc(q.Name) == nil && !q.Disabled && len(q.DependsOn) == 0 {
					n := 0
					for _, in := range instsOf(q.Name) {
						if in.ExecSeq > lo && in.ExecSeq <= hi {
							n++
						}
					}
					if n == 0 {
						add("added-process-not-launched", "", fmt.Sprintf("%s: %s was added to the configuration but no command of it was launched", last.Desc, q.Name), hi)
						return vs
					}
				}
			}
			last = nil
		}
	}
	return vs
}

func genC14(r *R, sc *Scenario, tier string) {
	spec := &ProjectSpec{}
	sc.Project = spec
	sc.Scripts = map[string]*TokenScript{}
	sc.Dirs = []string{"d1", "d2"}
	n := r.Range(1, 5)
	mk := func(name string) *ProcSpec {
		p := &ProcSpec{Name: name, Token: name + ".v0"}
		life := -1
		if r.P(150) {
			life = Pick(r, 200, 700)
		}
		sc.Scripts[name+".*"] = &TokenScript{Launches: []simos.Script{{LifeMs: life, TermLagMs: Pick(r, 0, 0, 10, 200), ExitOnSig: Pick(r, 0, 143),
			Out: []simos.OutChunk{{AtMs: 1, Stream: 1, Data: "I am %T now\n"}}}}}
		if r.P(400) {
			p.Env = []string{"K=" + Pick(r, "a", "b")}
			if r.P(300) {
				p.Env = append(p.Env, "L=1")
			}
		}
		if r.P(250) {
			p.WorkingDir = Pick(r, "d1", "d2")
		}
		if r.P(200) && life < 0 {
			p.Restart = Pick(r, "on_failure", "always")
		}
		if r.P(120) {
			p.Disabled = true
		}
		if r.P(150) {
			p.Readiness = &ProbeSpec{Token: name, Period: iptr(Pick(r, 1, 2))}
		}
		sc.Scripts["simprobe:"+name] = &TokenScript{Launches: []simos.Script{{LifeMs: 10, Exit: 0}}}
		return p
	}
	for i := 0; i < n; i++ {
		p := mk(fmt.Sprintf("u%d", i))
		if i > 0 && r.P(200) {
			if d := spec.Procs[r.Intn(i)]; !d.Disabled {
				p.DependsOn = map[string]string{d.Name: "process_started"}
			}
		}
		spec.Procs = append(spec.Procs, p)
	}
	nup := r.Range(1, 3)
	cur := spec
	next := n
	var ops []Op
	at := 1500
	ops = append(ops, Op{AtMs: at, Op: "audit"})
	for u := 0; u < nup; u++ {
		np := cloneSpec(cur)
		var kept []*ProcSpec
		var gone []string
		for _, p := range np.Procs {
			switch {
			case r.P(200) && len(np.Procs) > 1:
				gone = append(gone, p.Name)
				continue
			case r.P(350):
				// change something that reaches the command or decides about its launches
				switch r.Intn(7) {
				case 5:
					p.Disabled = !p.Disabled
				case 6:
					if p.Readiness == nil {
						p.Readiness = &ProbeSpec{Token: p.Name, Period: iptr(Pick(r, 1, 2))}
					} else if r.P(500) {
						p.Readiness = nil
					} else {
						p.Readiness.Period = iptr(*p.Readiness.Period + 1)
					}
				case 0:
					p.Token = fmt.Sprintf("%s.v%d", p.Name, u+1)
				case 1:
					p.Env = []string{"K=" + Pick(r, "c", "d", "e") + fmt.Sprint(u)}
				case 2:
					if p.WorkingDir == "d1" {
						p.WorkingDir = "d2"
					} else {
						p.WorkingDir = "d1"
					}
				case 3:
					if p.Restart == "" {
						p.Restart = "on_failure"
					} else {
						p.Restart = ""
					}
				case 4:
					p.Backoff = iptr(u + 2)
				}
			}
			kept = append(kept, p)
		}
		// dependencies on removed processes go with them
		for _, p := range kept {
			for d := range p.DependsOn {
				if hasStr(gone, d) {
					delete(p.DependsOn, d)
				}
			}
			if len(p.DependsOn) == 0 {
				p.DependsOn = nil
			}
		}
		np.Procs = kept
		for k := r.Intn(3); k > 0; k-- {
			np.Procs = append(np.Procs, mk(fmt.Sprintf("u%d", next)))
			next++
		}
		if r.P(150) {
			np = cloneSpec(cur) // an update with the very same configuration
			gone = nil
		}
		sc.Updates = append(sc.Updates, np)
		at += Pick(r, 1500, 2000, 3000)
		ops = append(ops, Op{AtMs: at, Op: "update", N: u})
		at += 1000
		ops = append(ops, Op{AtMs: at, Op: "audit", Args: gone})
		cur = np
	}
	sc.Clients = append(sc.Clients, Client{Name: "updater", Ops: ops})
	if r.P(300) {
		var pops []Op
		for x := 700; x < at; x += Pick(r, 300, 700, 1100) {
			pops = append(pops, Op{AtMs: x, Op: Pick(r, "states", "projstate", "names")})
		}
		sc.Clients = append(sc.Clients, Client{Name: "poll", Ops: pops})
	}
	sc.Strategy = genStrategy(r)
	sc.Strategy.StallPermille = 0
	sc.IterMode = Pick(r, 0, 0, 1, 2, 3)
	sc.IterRot = r.Intn(7)
	sc.RunForMs = at + 1500
	sc.QuietMs = 1000
	sc.Arm = "update"
}
