package harness

import (
	"fmt"
	"sort"
	"strings"
	"time"
)

// ---- helpers over the scenario model ----

func (sc *Scenario) specOfReplica(rep string) *ProcSpec {
	if sc.Project == nil {
		return nil
	}
	if p := sc.Project.Proc(rep); p != nil {
		return p
	}
	if i := strings.LastIndexByte(rep, '-'); i > 0 {
		return sc.Project.Proc(rep[:i])
	}
	return nil
}

func isStartOp(op string) bool {
	return op == "start" || op == "restart" || op == "scale" || op == "update" || op == "reload"
}

// explicitStartCovering: is there an explicit start-like request naming the replica (or a
// whole-project update / scale of its process) that had not returned before `after` and
// was invoked before `before`?
func (t *Truth) explicitStartCovering(rep string, after, before int) bool {
	for _, c := range t.Calls {
		if !isStartOp(c.Op) {
			continue
		}
		if c.Op == "start" || c.Op == "restart" {
			if c.Arg != rep {
				continue
			}
		}
		if c.Op == "scale" {
			base := rep
			if i := strings.LastIndexAny(rep, "-#"); i > 0 {
				base = rep[:i] // ("name#k": replica k launched while the names were being changed)
			}
			if c.Arg != rep && c.Arg != base && !strings.HasPrefix(c.Arg, base+"-") {
				continue
			}
		}
		if c.CallSeq < before && (c.RetSeq < 0 || c.RetSeq > after) {
			return true
		}
	}
	return false
}

func restartOwed(p *ProcSpec, code int, restartsSoFar int) bool {
	if p == nil {
		return false
	}
	switch p.Restart {
	case "always":
	case "on_failure":
		if code == 0 {
			return false
		}
	default:
		return false
	}
	if p.MaxRestarts > 0 && restartsSoFar >= p.MaxRestarts {
		return false
	}
	return true
}

func backoffOf(p *ProcSpec) time.Duration {
	b := 1
	if p != nil && p.Backoff != nil && *p.Backoff > b {
		b = *p.Backoff
	}
	return time.Duration(b) * time.Second
}

// stopRequests returns the stop-like calls (stop of the replica, stop-many naming it,
// project shutdown, and the internal shutdown triggered by exit_on_*) as (callSeq, retSeq)
// pairs. Internal shutdowns are approximated by the first Terminating transition that no
// API call explains; they are only used to *relax* obligations.
func (t *Truth) stopCalls(rep string) []*Call {
	var r []*Call
	for _, c := range t.Calls {
		switch c.Op {
		case "stop":
			if c.Arg == rep {
				r = append(r, c)
			}
		case "stopmany":
			for _, a := range strings.Split(c.Arg, "+") {
				if a == rep {
					r = append(r, c)
				}
			}
		case "shutdown":
			r = append(r, c)
		case "restart":
			if c.Arg == rep {
				r = append(r, c)
			}
		case "scale", "update", "reload":
			r = append(r, c)
		}
	}
	return r
}

// firstShutdownSeq: the earliest instant at which a project shutdown may have begun: an
// explicit shutdown call, or an exit_on_* trigger (exit of a carrier / skip of a carrier).
func (t *Truth) firstShutdownSeq(sc *Scenario) int {
	first := -1
	upd := func(s int) {
		if s >= 0 && (first < 0 || s < first) {
			first = s
		}
	}
	for _, c := range t.Calls {
		if c.Op == "shutdown" {
			upd(c.CallSeq)
		}
	}
	for rep, insts := range t.ByRep {
		p := sc.specOfReplica(rep)
		if p == nil {
			continue
		}
		for _, in := range insts {
			if in.ExitSeq >= 0 && (p.ExitOnEnd || (p.Restart == "exit_on_failure" && in.Code != 0)) {
				upd(in.ExitSeq)
			}
		}
	}
	for rep, trs := range t.Trans {
		p := sc.specOfReplica(rep)
		if p == nil {
			continue
		}
		for _, tr := range trs {
			if (tr.State == "Skipped" && p.ExitOnSkipped) || (tr.State == "Error" && (p.ExitOnEnd || p.Restart == "exit_on_failure")) {
				upd(tr.Seq)
			}
		}
	}
	return first
}

// ---- C03: shutdown completeness ----

func checkC03(sc *Scenario, t *Truth) []Violation {
	var vs []Violation
	var firstSD *Call
	for _, c := range t.Calls {
		if c.Op != "shutdown" {
			continue
		}
		if firstSD == nil {
			firstSD = c
		}
		if c.RetSeq < 0 {
			vs = append(vs, Violation{"C03", "shutdown-never-returned", c.Client, fmt.Sprintf("ShutDownProject invoked at step-seq %d (t=%v) by %s never returned", c.CallSeq, c.CallT, c.Client), c.CallSeq})
			continue
		}
		for _, in := range t.Insts {
			if in.Kind != "simproc" || in.ExecSeq > c.RetSeq {
				continue
			}
			if in.ExitSeq >= 0 && in.ExitSeq < c.RetSeq {
				continue
			}
			if t.explicitStartCovering(in.Replica, c.CallSeq, in.ExecSeq+1) {
				continue
			}
			vs = append(vs, Violation{"C03", "alive-at-shutdown-return", "status=" + t.StatusAt(in.Replica, c.CallSeq),
				fmt.Sprintf("command of %s (pid %d, launched at seq %d) is still alive when ShutDownProject (invoked seq %d) returned at seq %d", in.Replica, in.Pid, in.ExecSeq, c.CallSeq, c.RetSeq), c.RetSeq})
		}
		for _, in := range t.Insts {
			if in.Kind != "simproc" || in.ExecSeq < c.RetSeq {
				continue
			}
			if t.explicitStartCovering(in.Replica, c.CallSeq, in.ExecSeq) {
				continue
			}
			vs = append(vs, Violation{"C03", "exec-after-shutdown-returned", "status-at-call=" + t.StatusAt(in.Replica, c.CallSeq),
				fmt.Sprintf("command of %s launched at seq %d (t=%v) after ShutDownProject returned at seq %d (t=%v) with no explicit start request", in.Replica, in.ExecSeq, in.ExecT, c.RetSeq, c.RetT), in.ExecSeq})
		}
		// reported state in the first snapshot after the return
		var sn *SnapEv
		for _, s := range t.Snaps {
			if s.Seq > c.RetSeq && s.Stable {
				sn = s
				break
			}
		}
		if sn == nil {
			sn = t.Final
		}
		if sn != nil && sn.Seq > c.RetSeq {
			for _, name := range sortedNames(sn.States) {
				st := sn.States[name]
				if (st.IsRunning || st.Status == "Running" || st.Status == "Launching" || st.Status == "Launched") && !t.explicitStartCovering(name, c.CallSeq, sn.Seq) {
					vs = append(vs, Violation{"C03", "reported-running-after-shutdown", "status=" + st.Status,
						fmt.Sprintf("%s reported status=%s is_running=%v at seq %d after ShutDownProject returned at seq %d", name, st.Status, st.IsRunning, sn.Seq, c.RetSeq), sn.Seq})
				}
			}
		}
	}
	if firstSD != nil && t.RunRet < 0 {
		anyStart := false
		for _, c := range t.Calls {
			if isStartOp(c.Op) && (c.RetSeq < 0 || c.RetSeq > firstSD.CallSeq) {
				anyStart = true
			}
		}
		if !anyStart {
			vs = append(vs, Violation{"C03", "run-never-returned-after-shutdown", "", fmt.Sprintf("Run() had not returned %v after the shutdown request", time.Duration(sc.BoundMs)*time.Millisecond), t.EndSeq})
		}
	}
	// after Run() returned nothing may be launched without an explicit start
	if t.RunRet >= 0 {
		excused := map[*Inst]bool{}
		for _, in := range t.Insts {
			prevExec := 0
			var prev *Inst
			for _, o := range t.ByRep[in.Replica] {
				if o.ExecSeq < in.ExecSeq && o.ExecSeq > prevExec {
					prevExec, prev = o.ExecSeq, o
				}
			}
			if in.Kind != "simproc" || in.ExecSeq <= t.RunRet {
				continue
			}
			// an explicit request explains the launch - also one that was invoked before Run()
			// returned and took its time - and the restarts its policy owes afterwards
			explained := t.explicitStartCovering(in.Replica, t.RunRet, in.ExecSeq) || t.startRequestedBetween(in.Replica, prevExec, in.ExecSeq)
			for _, c := range t.Calls {
				if (c.Op == "start" || c.Op == "restart") && c.Arg == in.Replica && c.Err == "" && c.CallSeq < in.ExecSeq && c.CallSeq > prevExec {
					explained = true
				}
			}
			if !explained && prev != nil && excused[prev] && prev.ExitSeq >= 0 && restartOwed(sc.specOfReplica(in.Replica), prev.Code, 0) {
				explained = true
			}
			if explained {
				excused[in] = true
				continue
			}
			if true {
				vs = append(vs, Violation{"C03", "exec-after-run-returned", "", fmt.Sprintf("command of %s launched at seq %d after Run() returned at seq %d", in.Replica, in.ExecSeq, t.RunRet), in.ExecSeq})
			}
		}
	}
	return vs
}

// ---- C04: project completion and exit code ----

func checkC04(sc *Scenario, t *Truth) []Violation {
	var vs []Violation
	if t.RunRet >= 0 {
		for _, in := range t.LiveAt(t.RunRet) {
			if t.explicitStartCovering(in.Replica, t.RunCall, in.ExecSeq+1) && in.ExecSeq > t.RunRet {
				continue
			}
			vs = append(vs, Violation{"C04", "run-returned-while-command-alive", "status=" + t.StatusAt(in.Replica, t.RunRet),
				fmt.Sprintf("Run() returned at seq %d while the command of %s (pid %d) was still alive", t.RunRet, in.Replica, in.Pid), t.RunRet})
		}
	}
	// triggers: ends of exit_on_* carriers that were not caused by the project shutdown itself
	cands, firstTrigger := triggerCandidates(sc, t)
	// "all other processes are shut down": once the shutdown a trigger started has sent its
	// first signal, no command is launched anymore (unless somebody asks for it)
	if firstTrigger < 1<<60 && sc.Strategy.StallPermille == 0 {
		firstKill := -1
		for i := firstTrigger; i < len(t.Events); i++ {
			if t.Events[i].Kind == "os.kill" {
				firstKill = i
				break
			}
		}
		if firstKill >= 0 {
			for _, in := range t.Insts {
				// the launch decision is the status change that precedes the exec (a command whose
				// launch was already under way when the shutdown began is stopped afterwards)
				gate := -1
				for _, tr := range t.Trans[in.Replica] {
					if tr.Seq < in.ExecSeq && (tr.State == "Running" || tr.State == "Launching") {
						gate = tr.Seq
					}
				}
				if in.Kind == "simproc" && gate > firstKill && !t.explicitStartCovering(in.Replica, 0, in.ExecSeq+1) {
					vs = append(vs, Violation{"C04", "launched-during-triggered-shutdown", "", fmt.Sprintf("%s was launched at seq %d (t=%v) although an exit_on_* trigger had started the project shutdown (first stop signal at seq %d)", in.Replica, in.ExecSeq, in.ExecT, firstKill), in.ExecSeq})
					break
				}
			}
		}
	}
	if t.RunRet >= 0 {
		if len(cands) == 0 {
			if t.RunCode != 0 {
				vs = append(vs, Violation{"C04", "nonzero-exit-without-trigger", fmt.Sprint(t.RunCode), fmt.Sprintf("Run() returned exit code %d (%s) although no exit_on_* trigger occurred", t.RunCode, t.RunErr), t.RunRet})
			}
		} else if _, ok := cands[t.RunCode]; !ok {
			var cs []string
			for c, w := range cands {
				cs = append(cs, fmt.Sprintf("%d from %s", c, w))
			}
			sort.Strings(cs)
			vs = append(vs, Violation{"C04", "exit-code-not-of-a-trigger", fmt.Sprint(t.RunCode), fmt.Sprintf("Run() returned exit code %d; triggering processes produced {%s}", t.RunCode, strings.Join(cs, "; ")), t.RunRet})
		}
	}
	// liveness: natural completion expected (with a daemon: completion through the trigger)
	if sc.Arm == "natural" || sc.Arm == "daemontrigger" {
		var mainSD *Call
		for _, c := range t.Calls {
			if c.Client == "main" && c.Op == "shutdown" {
				mainSD = c
			}
		}
		if t.RunRet < 0 || (mainSD != nil && mainSD.CallSeq < t.RunRet) {
			// which processes keep it waiting?
			var stuck []string
			if t.Final != nil {
				for _, n := range sortedNames(t.Final.States) {
					s := t.Final.States[n]
					switch s.Status {
					case "Completed", "Skipped", "Error", "Disabled", "Foreground":
					default:
						stuck = append(stuck, n+"="+s.Status)
					}
				}
			}
			seq := t.EndSeq
			if mainSD != nil {
				seq = mainSD.CallSeq
			}
			var stuckSnap []string
			for i := len(t.Snaps) - 1; i >= 0; i-- {
				if t.Snaps[i].Seq < seq && t.Snaps[i].Stable {
					for _, n := range sortedNames(t.Snaps[i].States) {
						s := t.Snaps[i].States[n]
						switch s.Status {
						case "Completed", "Skipped", "Error", "Disabled", "Foreground":
						default:
							stuckSnap = append(stuckSnap, n+"="+s.Status)
						}
					}
					break
				}
			}
			live := t.LiveAt(seq)
			if len(live) == 0 {
				vs = append(vs, Violation{"C04", "run-waits-forever", statusSet(stuckSnap),
					fmt.Sprintf("every command had exited and nothing could start any more, yet Run() had not returned after %v of quiet; non-terminal: %v", time.Duration(sc.RunForMs)*time.Millisecond, stuckSnap), seq})
			}
			_ = stuck
		}
	}
	return vs
}

// ---- C02: restart policy ----

func checkC02(sc *Scenario, t *Truth) []Violation {
	var vs []Violation
	sdSeq := t.firstShutdownSeq(sc)
	for _, rep := range sortedNames(t.ByRep) {
		insts := t.ByRep[rep]
		p := sc.specOfReplica(rep)
		if p == nil {
			continue
		}
		stops := t.stopCalls(rep)
		restarts := 0
		everStopped := false
		for i, in := range insts {
			if in.ExitSeq < 0 {
				continue
			}
			var next *Inst
			if i+1 < len(insts) {
				next = insts[i+1]
			}
			// a stop-like request that was invoked before the point where the relaunch would happen
			stopInvolved, stopReturned := false, false
			limit := t.EndSeq
			if next != nil {
				limit = next.ExecSeq
			}
			for _, c := range stops {
				if c.CallSeq < limit {
					stopInvolved = true
					everStopped = true
				}
				if c.RetSeq >= 0 && c.RetSeq < limit && c.CallSeq < limit {
					// returned before the next exec (if any)
					if next == nil || c.RetSeq < next.ExecSeq {
						stopReturned = stopReturned || (c.Op == "stop" || c.Op == "stopmany" || c.Op == "shutdown")
					}
				}
			}
			if sdSeq >= 0 && sdSeq < limit {
				stopInvolved = true
				everStopped = true
			}
			owed := restartOwed(p, in.Code, restarts)
			if next != nil {
				explicit := t.explicitStartCovering(rep, in.ExecSeq, next.ExecSeq)
				if !explicit {
					// automatic relaunch
					if !owed {
						why := fmt.Sprintf("policy=%q exit=%d restarts=%d max=%d", p.Restart, in.Code, restarts, p.MaxRestarts)
						cls := "relaunch-not-owed"
						if p.MaxRestarts > 0 && restarts >= p.MaxRestarts && (p.Restart == "always" || (p.Restart == "on_failure" && in.Code != 0)) {
							cls = "relaunch-beyond-max-restarts"
						}
						vs = append(vs, Violation{"C02", cls, fmt.Sprintf("policy=%s", p.Restart), fmt.Sprintf("%s was relaunched at seq %d although no restart was owed (%s)", rep, next.ExecSeq, why), next.ExecSeq})
					}
					if gap := next.ExecT - in.ExitT; gap < backoffOf(p) {
						vs = append(vs, Violation{"C02", "relaunch-before-backoff", fmt.Sprintf("backoff=%v", backoffOf(p)), fmt.Sprintf("%s relaunched %v after its exit; backoff is %v", rep, gap, backoffOf(p)), next.ExecSeq})
					}
					// after a stop/shutdown request that has returned no automatic relaunch is allowed
					for _, c := range stops {
						if (c.Op == "stop" || c.Op == "stopmany" || c.Op == "shutdown") && c.Err == "" && c.RetSeq >= 0 && c.RetSeq < next.ExecSeq && c.CallSeq > in.ExecSeq {
							vs = append(vs, Violation{"C02", "relaunch-after-stop-returned", c.Op + " status-at-call=" + t.StatusAt(rep, c.CallSeq),
								fmt.Sprintf("%s relaunched at seq %d (t=%v) although %s invoked at seq %d had returned at seq %d (t=%v)", rep, next.ExecSeq, next.ExecT, c.Desc, c.CallSeq, c.RetSeq, c.RetT), next.ExecSeq})
							break
						}
					}
					// ... nor once a stop/shutdown has been *requested*: a request invoked at a
					// strictly earlier fake instant than the relaunch precedes it whatever the
					// interleaving (requests of the same instant may linearise either way)
					if sc.Strategy.StallPermille == 0 {
						for _, c := range stops {
							if (c.Op == "stop" || c.Op == "stopmany" || c.Op == "shutdown") && c.CallT < next.ExecT && c.CallSeq > in.ExecSeq && (c.Err == "" || c.RetSeq < 0) {
								vs = append(vs, Violation{"C02", "relaunch-after-stop-requested", c.Op + " status-at-call=" + t.StatusAt(rep, c.CallSeq),
									fmt.Sprintf("%s relaunched at t=%v although %s had been requested at t=%v (status then: %s)", rep, next.ExecT, c.Desc, c.CallT, t.StatusAt(rep, c.CallSeq)), next.ExecSeq})
								break
							}
						}
					}
					restarts++
				}
			} else if owed && !stopInvolved && sc.Arm != "open" {
				// "if" direction: the relaunch must have happened by the end of the run
				if t.EndT-in.ExitT > backoffOf(p)+5*time.Second {
					vs = append(vs, Violation{"C02", "owed-relaunch-missing", fmt.Sprintf("policy=%s", p.Restart), fmt.Sprintf("%s exited with %d at t=%v (restarts so far %d, max %d, policy %s) and was not relaunched by t=%v", rep, in.Code, in.ExitT, restarts, p.MaxRestarts, p.Restart, t.EndT), in.ExitSeq})
				}
			}
			_ = stopReturned
		}
		if !everStopped && t.Final != nil && len(insts) > 0 {
			if st, ok := t.Final.States[rep]; ok {
				explicitStarts := 0
				for _, c := range t.Calls {
					if isStartOp(c.Op) {
						explicitStarts++
					}
				}
				if explicitStarts == 0 && st.Restarts != restarts {
					vs = append(vs, Violation{"C02", "restart-count-mismatch", "", fmt.Sprintf("%s reports restarts=%d but was relaunched %d times", rep, st.Restarts, restarts), t.Final.Seq})
				}
			}
		}
	}
	return vs
}

// ---- C12: ordered shutdown ----

func checkC12(sc *Scenario, t *Truth) []Violation {
	var vs []Violation
	if !sc.OrderedShutdown {
		return nil
	}
	sd := t.firstShutdownSeq(sc)
	if sd < 0 {
		return nil
	}
	// "... and the shutdown still completes"
	if sc.Strategy.StallPermille == 0 {
		for _, c := range t.Calls {
			if c.Op == "shutdown" && c.RetSeq < 0 && t.EndT-c.CallT > 120*time.Second {
				vs = append(vs, Violation{"C12", "ordered-shutdown-never-completed", c.Client, fmt.Sprintf("the ordered shutdown requested by %s at t=%v had not returned %v later", c.Client, c.CallT, t.EndT-c.CallT), c.CallSeq})
				break
			}
		}
	}
	// live instance per replica when the shutdown began
	liveAt := map[string]*Inst{}
	for _, in := range t.LiveAt(sd) {
		liveAt[in.Replica] = in
	}
	for _, depName := range sortedNames(liveAt) {
		din := liveAt[depName]
		if len(din.Kills) == 0 {
			continue
		}
		var firstKill *KillEv
		for i := range din.Kills {
			k := &din.Kills[i]
			if k.Seq < sd {
				continue
			}
			// a signal sent on behalf of a user's own stop/restart request for this
			// process is not part of the ordered shutdown
			userStop := false
			for _, c := range t.Calls {
				if (c.Op == "stop" || c.Op == "restart" || c.Op == "stopmany") && c.Task == k.Task && c.CallSeq < k.Seq && (c.RetSeq < 0 || c.RetSeq > k.Seq) && strings.Contains(c.Desc, depName) {
					userStop = true
				}
			}
			if userStop {
				continue
			}
			firstKill = k
			break
		}
		if firstKill == nil {
			continue
		}
		for _, p := range sc.Project.Procs {
			if _, ok := p.DependsOn[depName]; !ok {
				continue
			}
			if p.IsDaemon && p.StopCmd != "" {
				// a daemon that was up (Launched) when the shutdown began is down when its
				// shutdown command has finished
				up := false
				for _, tr := range t.Trans[p.Name] {
					if tr.Seq < sd {
						up = tr.State == "Launched"
					}
				}
				if up && sc.Strategy.StallPermille == 0 {
					// (a supervisor goroutine that is set aside for longer than the shutdown
					// command's time-out - fault F13 - finds the time-out expired before the
					// command was even started: nothing can be demanded of that run)
					done := false
					for _, in := range t.ByToken["simstop:"+p.StopCmd] {
						if in.ExecSeq > sd && in.ExitSeq >= 0 && in.ExitSeq < firstKill.Seq {
							done = true
						}
					}
					if !done {
						vs = append(vs, Violation{"C12", "dependency-signalled-before-dependent-died", "daemon-dependent",
							fmt.Sprintf("%s received signal %d at seq %d before the shutdown command of the daemon %s, which depends on it and was up when the shutdown began, had finished", depName, firstKill.Sig, firstKill.Seq, p.Name), firstKill.Seq})
					}
				}
				continue
			}
			// the configured replicas and those a scale request added at run time
			rns := ReplicaNames(p.Name, p.Replicas)
			for _, rn := range sortedNames(liveAt) {
				if strings.HasPrefix(rn, p.Name+"-") && sc.specOfReplica(rn) == p && !containsStr(rns, rn) {
					rns = append(rns, rn)
				}
			}
			for _, rn := range rns {
				e := liveAt[rn]
				if e == nil {
					continue
				}
				if e.ExitSeq < 0 || e.ExitSeq > firstKill.Seq {
					vs = append(vs, Violation{"C12", "dependency-signalled-before-dependent-died", fmt.Sprintf("ndependents=%d", countDependents(sc, depName, liveAt)),
						fmt.Sprintf("%s received signal %d at seq %d while %s, which depends on it and was running when the shutdown began, was still alive", depName, firstKill.Sig, firstKill.Seq, rn), firstKill.Seq})
				}
			}
		}
	}
	return vs
}

func containsStr(l []string, s string) bool {
	for _, x := range l {
		if x == s {
			return true
		}
	}
	return false
}

func countDependents(sc *Scenario, dep string, live map[string]*Inst) int {
	n := 0
	for _, p := range sc.Project.Procs {
		if _, ok := p.DependsOn[dep]; ok && live[p.Name] != nil {
			n++
		}
	}
	return n
}

// triggerCandidates returns the exit codes that Run() may report: the exit code of every
// end of an exit_on_failure (non-zero) / exit_on_end carrier that was not brought about by
// the project shutdown itself, and 1 for a skipped exit_on_skipped carrier or a carrier
// that failed to start. An end is attributed to the shutdown when the fatal signal was
// sent after the first trigger (or after an explicit shutdown request).
func triggerCandidates(sc *Scenario, t *Truth) (map[int]string, int) {
	type ev struct {
		seq     int
		code    int
		who     string
		kill    int  // seq of the fatal signal, -1 for a script exit
		certain bool // this end certainly triggers a shutdown (no restart can follow)
		skipOf  *ProcSpec // for a skip: the process that was skipped
	}
	var evs []ev
	for rep, insts := range t.ByRep {
		p := sc.specOfReplica(rep)
		if p == nil {
			continue
		}
		for i, in := range insts {
			if in.ExitSeq < 0 {
				continue
			}
			kill := -1
			if in.BySig != 0 {
				kill = in.ExitSeq
				for _, k := range in.Kills {
					if k.Seq < kill {
						kill = k.Seq
					}
				}
			}
			// the supervisor acts on an exit once it has recorded the final state
			when := in.ExitSeq
			for _, tr := range t.Trans[rep] {
				if tr.Seq > in.ExitSeq && isTerminalStatus(tr.State) {
					when = tr.Seq
					break
				}
			}
			if p.Restart == "exit_on_failure" && in.Code != 0 {
				evs = append(evs, ev{when, in.Code, rep + " (exit_on_failure)", kill, true, nil})
			} else if p.ExitOnEnd {
				evs = append(evs, ev{when, in.Code, rep + " (exit_on_end)", kill, !restartOwed(p, in.Code, i), nil})
			}
		}
	}
	for rep, trs := range t.Trans {
		p := sc.specOfReplica(rep)
		if p == nil {
			continue
		}
		for _, tr := range trs {
			if tr.State == "Skipped" && p.ExitOnSkipped {
				evs = append(evs, ev{tr.Seq, 1, rep + " (exit_on_skipped)", -1, true, p})
			}
			if tr.State == "Error" && (p.ExitOnEnd || p.Restart == "exit_on_failure") {
				evs = append(evs, ev{tr.Seq, 1, rep + " (failed to start)", -1, true, nil})
			}
		}
	}
	sort.Slice(evs, func(i, j int) bool { return evs[i].seq < evs[j].seq })
	first := 1 << 60
	for _, c := range t.Calls {
		if c.Op == "shutdown" && c.CallSeq < first {
			first = c.CallSeq
		}
	}
	cands := map[int]string{}
	for _, e := range evs {
		if e.kill >= 0 && e.kill > first {
			continue // terminated by the shutdown
		}
		if e.skipOf != nil && e.seq > first {
			// skipped because the shutdown terminated one of its dependencies: a consequence
			// of the shutdown, not a trigger
			caused := false
			for d := range e.skipOf.DependsOn {
				dp := sc.Project.Proc(d)
				if dp == nil {
					continue
				}
				for _, rn := range ReplicaNames(dp.Name, dp.Replicas) {
					for _, in := range t.ByRep[rn] {
						for _, k := range in.Kills {
							if k.Seq > first && k.Seq < e.seq {
								caused = true
							}
						}
					}
				}
			}
			if caused {
				continue
			}
		}
		cands[e.code] = e.who
		if e.certain && e.seq < first {
			first = e.seq
		}
	}
	return cands, first
}

func statusSet(xs []string) string {
	m := map[string]bool{}
	for _, x := range xs {
		if i := strings.IndexByte(x, '='); i >= 0 {
			m[x[i+1:]] = true
		}
	}
	return strings.Join(sortedNames(m), "+")
}
