package harness

import (
	"fmt"

	"verifrt/simos"
	"verifrt/simsync"
)

// R is the scenario PRNG (one stream per scenario, derived from the run seed).
type R struct{ x uint64 }

func NewR(seed uint64, key uint64) *R { return &R{simsync.Mix(seed, key)} }

func (r *R) next() uint64 {
	r.x += 0x9e3779b97f4a7c15
	z := r.x
	z = (z ^ (z >> 30)) * 0xbf58476d1ce4e5b9
	z = (z ^ (z >> 27)) * 0x94d049bb133111eb
	return z ^ (z >> 31)
}
func (r *R) Intn(n int) int {
	if n <= 1 {
		return 0
	}
	return int(r.next() % uint64(n))
}
func (r *R) Range(lo, hi int) int { return lo + r.Intn(hi-lo+1) }
func (r *R) P(permille int) bool   { return r.Intn(1000) < permille }
func Pick[T any](r *R, xs ...T) T  { return xs[r.Intn(len(xs))] }

var allConds = []string{"process_completed", "process_completed_successfully", "process_healthy", "process_log_ready", "process_started"}

// CoreKnobs narrows the common generator for one property.
type CoreKnobs struct {
	MinProcs, MaxProcs int
	Finite             bool     // every process ends by itself; restarts are bounded
	Conds              []string // allowed depends_on conditions
	EdgeP              int      // permille per possible edge
	RestartP           int      // permille of processes with a restart policy other than no
	ExitOnP            int      // permille of processes carrying an exit_on_* setting
	StartFailP         int      // permille of launches that fail to start / have a bad working dir
	FailExitP          int      // permille of launches exiting non-zero
	NeverReadyP        int      // permille of ready-line/probe dependencies that never become ready
	SlowDeathP         int      // permille of processes that react slowly to the stop signal
	StopTimeoutP       int      // permille of processes with a shutdown timeout
	IgnoreTermP        int      // permille of processes ignoring SIGTERM (always with a timeout)
	DisabledP          int
	StopCmdP           int // permille of processes with a shutdown command (succeeds / fails / hangs)
	MaxLifeMs          int
	Replicated         bool
}

func genStrategy(r *R) simsync.Strategy {
	st := simsync.Strategy{Kind: r.Intn(3), SwitchPermille: Pick(r, 50, 200, 500), PCTDepth: r.Range(1, 3), PCTLen: Pick(r, 100, 300, 800)}
	if r.P(150) {
		st.StallPermille = Pick(r, 5, 20)
		st.StallMaxMs = Pick(r, 50, 1500, 5000)
	}
	return st
}

// lifeScript draws one launch of a managed process.
func lifeScript(r *R, k *CoreKnobs, finite bool) simos.Script {
	s := simos.Script{}
	maxLife := k.MaxLifeMs
	if maxLife == 0 {
		maxLife = 8000
	}
	if finite {
		// whole and half seconds are frequent so that exits coincide with timers
		if r.P(500) {
			s.LifeMs = 500 * r.Range(0, maxLife/500)
		} else {
			s.LifeMs = r.Range(0, maxLife)
		}
	} else {
		s.LifeMs = -1
	}
	if r.P(k.FailExitP) {
		s.Exit = Pick(r, 1, 2, 3, 42, 127, 255)
	}
	if r.P(k.SlowDeathP) {
		s.TermLagMs = Pick(r, 100, 1000, 3000, 7000)
	} else if r.P(300) {
		s.TermLagMs = Pick(r, 1, 10, 50)
	}
	if r.P(200) {
		s.ExitOnSig = Pick(r, 143, 130, 1)
	}
	return s
}

// GenCore generates a project for the life-cycle properties.
func GenCore(r *R, k *CoreKnobs, sc *Scenario) {
	n := r.Range(k.MinProcs, k.MaxProcs)
	spec := &ProjectSpec{}
	sc.Project = spec
	sc.Scripts = map[string]*TokenScript{}
	conds := k.Conds
	if len(conds) == 0 {
		conds = allConds
	}
	for i := 0; i < n; i++ {
		p := &ProcSpec{Name: fmt.Sprintf("p%d", i), Token: fmt.Sprintf("p%d", i)}
		spec.Procs = append(spec.Procs, p)
		if r.P(k.DisabledP) {
			p.Disabled = true
		}
		// availability
		finite := k.Finite || r.P(500)
		if r.P(k.RestartP) {
			p.Restart = Pick(r, "always", "on_failure", "on_failure", "exit_on_failure", "no")
			if r.P(700) {
				p.Backoff = iptr(Pick(r, 0, 1, 2, 3, 5))
			}
			if k.Finite || r.P(600) {
				p.MaxRestarts = r.Range(1, 3)
			}
		}
		if r.P(k.ExitOnP) {
			switch r.Intn(3) {
			case 0:
				p.Restart = "exit_on_failure"
			case 1:
				p.ExitOnEnd = true
			case 2:
				p.ExitOnSkipped = true
			}
		}
		// launches
		nl := 1
		if p.Restart == "always" || p.Restart == "on_failure" {
			nl = r.Range(1, 4)
		}
		ts := &TokenScript{}
		for l := 0; l < nl; l++ {
			s := lifeScript(r, k, finite || (p.Restart != "" && l < nl-1))
			if r.P(k.StartFailP) {
				s.StartErr = "no such file or directory"
			}
			ts.Launches = append(ts.Launches, s)
		}
		if (p.Restart == "always" || p.Restart == "on_failure") && p.MaxRestarts == 0 && k.Finite {
			p.MaxRestarts = r.Range(1, 3)
		}
		sc.Scripts[p.Token] = ts
		if r.P(k.StartFailP / 2) {
			p.WorkingDir = "missing-dir"
		}
		// shutdown behaviour
		if r.P(k.StopTimeoutP) {
			p.StopTimeout = iptr(Pick(r, 1, 2, 3, 5))
		}
		if r.P(k.IgnoreTermP) {
			for l := range ts.Launches {
				ts.Launches[l].Ignore = []int{15}
			}
			if p.StopTimeout == nil {
				p.StopTimeout = iptr(Pick(r, 1, 2, 4))
			}
		}
		if r.P(k.StopCmdP) {
			p.StopCmd = p.Token
			// a successful shutdown command is never followed by SIGKILL: termination is
			// owed only if the process honours the command's signal
			for l := range ts.Launches {
				ts.Launches[l].Ignore = nil
			}
			var sc2 simos.Script
			switch r.Intn(10) {
			case 0, 1, 2, 3, 4, 5:
				sc2 = simos.Script{LifeMs: Pick(r, 10, 200, 1500), Exit: 0, KillToken: p.Token, KillSig: 15, KillAtMs: Pick(r, 0, 5, 100)}
			case 6, 7:
				sc2 = simos.Script{LifeMs: Pick(r, 10, 300), Exit: Pick(r, 1, 2, 127)} // fails without stopping anything
			case 8:
				sc2 = simos.Script{LifeMs: 50, Exit: 3, KillToken: p.Token, KillSig: 15} // stops it but reports failure
			default:
				sc2 = simos.Script{LifeMs: -1} // hangs until its time-out
			}
			sc.Scripts["simstop:"+p.Token] = &TokenScript{Launches: []simos.Script{sc2}}
			if r.P(500) {
				p.StopTimeout = iptr(Pick(r, 1, 2, 4))
			}
		}
		// dependencies on earlier processes
		for j := 0; j < i; j++ {
			if !r.P(k.EdgeP) {
				continue
			}
			d := spec.Procs[j]
			c := conds[r.Intn(len(conds))]
			if d.Disabled && !p.Disabled {
				continue
			}
			switch c {
			case "process_healthy":
				if d.ReadyLine != "" {
					c = "process_log_ready"
				} else if d.Readiness == nil {
					d.Readiness = &ProbeSpec{Token: d.Token}
					if r.P(500) {
						d.Readiness.InitialDelay = iptr(Pick(r, 0, 1, 2))
					}
					d.Readiness.Period = iptr(Pick(r, 1, 2, 3))
					if r.P(300) {
						d.Readiness.FailureThreshold = iptr(Pick(r, 1, 2, 5))
					}
					genProbeScript(r, k, sc, d.Token)
				}
			case "process_log_ready":
				if d.Readiness != nil {
					c = "process_healthy"
				} else if d.ReadyLine == "" {
					d.ReadyLine = "is ready"
					addReadyLine(r, k, sc.Scripts[d.Token])
				}
			}
			if p.DependsOn == nil {
				p.DependsOn = map[string]string{}
			}
			p.DependsOn[d.Name] = c
		}
	}
	sc.Strategy = genStrategy(r)
	sc.IterMode = Pick(r, 0, 0, 0, 1, 2, 3)
	sc.IterRot = r.Intn(7)
}

func addReadyLine(r *R, k *CoreKnobs, ts *TokenScript) {
	for l := range ts.Launches {
		s := &ts.Launches[l]
		if r.P(k.NeverReadyP) {
			s.Out = append(s.Out, simos.OutChunk{AtMs: 100, Stream: 1, Data: "not yet\n"})
			continue
		}
		at := r.Range(0, 3000)
		if s.LifeMs >= 0 && at > s.LifeMs {
			if r.P(500) {
				at = s.LifeMs // right before exit
			} else {
				continue // exits before the line
			}
		}
		switch r.Intn(3) {
		case 0:
			s.Out = append(s.Out, simos.OutChunk{AtMs: at, Stream: 1, Data: "service is ready now\n"})
		case 1: // split across two writes
			s.Out = append(s.Out, simos.OutChunk{AtMs: at, Stream: 1, Data: "service is re"}, simos.OutChunk{AtMs: at + r.Range(0, 300), Stream: 1, Data: "ady now\n"})
			if s.LifeMs >= 0 && s.Out[len(s.Out)-1].AtMs > s.LifeMs {
				s.Out[len(s.Out)-1].AtMs = s.LifeMs
			}
		case 2:
			s.Out = append(s.Out, simos.OutChunk{AtMs: at / 2, Stream: 2, Data: "warming up\n"}, simos.OutChunk{AtMs: at, Stream: Pick(r, 1, 2), Data: "x is ready\nmore\n"})
		}
		s.ChunkMode = r.Intn(3)
	}
}

// genProbeScript: a sequence of probe-run outcomes for a readiness probe.
func genProbeScript(r *R, k *CoreKnobs, sc *Scenario, tok string) {
	ts := &TokenScript{}
	nfail := 0
	if r.P(k.NeverReadyP) {
		nfail = 50
	} else {
		nfail = Pick(r, 0, 0, 1, 2, 3)
	}
	for i := 0; i < nfail && i < 6; i++ {
		if r.P(250) {
			// a probe command that hangs until its time-out kills it
			ts.Launches = append(ts.Launches, simos.Script{LifeMs: -1})
			continue
		}
		ts.Launches = append(ts.Launches, simos.Script{LifeMs: Pick(r, 10, 200), Exit: 1})
	}
	if nfail < 50 {
		ts.Launches = append(ts.Launches, simos.Script{LifeMs: Pick(r, 10, 200, 900), Exit: 0})
	}
	sc.Scripts["simprobe:"+tok] = ts
}
