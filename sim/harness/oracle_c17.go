package harness

import (
	"fmt"
	"strings"

	"verifrt/simos"
)

// ---- C17: environment ----

// expandC17 is the oracle's own reading of the statement: $NAME and ${NAME} are replaced by
// the value from the environment (empty when undefined), $$ yields a literal $.
func expandC17(s string, env map[string]string) string {
	var b strings.Builder
	for i := 0; i < len(s); i++ {
		if s[i] != '$' || i+1 >= len(s) {
			b.WriteByte(s[i])
			continue
		}
		if s[i+1] == '$' {
			b.WriteByte('$')
			i++
			continue
		}
		if s[i+1] == '{' {
			if j := strings.IndexByte(s[i+2:], '}'); j >= 0 {
				b.WriteString(env[s[i+2:i+2+j]])
				i += 2 + j
				continue
			}
		}
		j := i + 1
		for j < len(s) && (s[j] == '_' || s[j] >= 'A' && s[j] <= 'Z' || s[j] >= 'a' && s[j] <= 'z' || s[j] >= '0' && s[j] <= '9') {
			j++
		}
		if j == i+1 {
			b.WriteByte('$')
			continue
		}
		b.WriteString(env[s[i+1:j]])
		i = j - 1
	}
	return b.String()
}

func checkC17(sc *Scenario, res *RunResult, t *Truth) []Violation {
	var vs []Violation
	add := func(class, disc, msg string, seq int) {
		vs = append(vs, Violation{"C17", class, disc, msg, seq})
	}
	spec := sc.Project
	// the environment process-compose itself runs in: its own, plus .env for what is not set
	pcEnv := map[string]string{}
	for k, v := range sc.Environ {
		pcEnv[k] = v
	}
	for _, ln := range strings.Split(sc.Files[".env"], "\n") {
		if i := strings.IndexByte(ln, '='); i > 0 {
			if _, set := pcEnv[ln[:i]]; !set {
				pcEnv[ln[:i]] = ln[i+1:]
			}
		}
	}
	load := func(s string) string {
		if spec.NoExpand {
			return s
		}
		return expandC17(s, pcEnv)
	}
	kv := func(list []string) map[string]string {
		m := map[string]string{}
		for _, e := range list {
			if i := strings.IndexByte(e, '='); i > 0 {
				m[e[:i]] = load(e[i+1:])
			}
		}
		return m
	}
	global := kv(spec.Env)
	envCmd := map[string]string{}
	for name, tok := range spec.EnvCmds {
		ts := sc.Scripts["simenv:"+tok]
		if ts != nil && len(ts.Launches) > 0 && ts.Launches[0].Exit == 0 && ts.Launches[0].StartErr == "" && ts.Launches[0].LifeMs >= 0 && ts.Launches[0].LifeMs < 2000 {
			envCmd[name] = strings.TrimSpace(ts.Launches[0].OutputText)
		}
	}
	// a live update: launches after it returned carry the updated per-process environment,
	// launches before it was requested the original one; in between either
	upCall, upRet := -1, -1
	var upSpec *ProjectSpec
	if len(sc.Updates) == 1 {
		for _, c := range t.Calls {
			if (c.Op == "update" || c.Op == "reload") && c.Err == "" && c.RetSeq >= 0 {
				upCall, upRet, upSpec = c.CallSeq, c.RetSeq, sc.Updates[0]
			}
		}
	}
	for _, p := range spec.Procs {
		ownOld := kv(p.Env)
		ownNew := ownOld
		if upSpec != nil {
			for _, q := range upSpec.Procs {
				if q.Name == p.Name {
					ownNew = kv(q.Env)
				}
			}
		}
		n := p.Replicas
		if n < 1 {
			n = 1
		}
		for k, rn := range ReplicaNames(p.Name, n) {
			for _, in := range t.ByRep[rn] {
				where := fmt.Sprintf("%s (pid %d)", rn, in.Pid)
				own := ownOld
				undecided := map[string]bool{}
				switch {
				case upSpec != nil && in.ExecSeq > upRet:
					own = ownNew
				case upSpec != nil && in.ExecSeq > upCall:
					own = map[string]string{} // either: judge what both agree on
					for nm, v := range ownOld {
						if w, ok := ownNew[nm]; ok && w == v {
							own[nm] = v
						} else {
							undecided[nm] = true
						}
					}
					for nm := range ownNew {
						if !has(ownOld, nm) {
							undecided[nm] = true
						}
					}
				}
				if v, _ := envOf(in, "PC_PROC_NAME"); v != p.Name {
					add("wrong-injected-variable", "PC_PROC_NAME", fmt.Sprintf("%s was launched with PC_PROC_NAME=%q", where, v), in.ExecSeq)
					return vs
				}
				if v, _ := envOf(in, "PC_REPLICA_NUM"); v != fmt.Sprint(k) {
					add("wrong-injected-variable", "PC_REPLICA_NUM", fmt.Sprintf("%s (replica %d) was launched with PC_REPLICA_NUM=%q", where, k, v), in.ExecSeq)
					return vs
				}
				names := map[string]bool{}
				for _, m := range []map[string]string{own, global, envCmd} {
					for nm := range m {
						names[nm] = true
					}
				}
				for nm := range sc.Environ {
					if strings.HasPrefix(nm, "VQ_") {
						names[nm] = true
					}
				}
				for _, nm := range sortedKeys(names) {
					want, src, defined := "", "", false
					switch {
					case undecided[nm]:
					case has(own, nm):
						want, src, defined = own[nm], "the process's own environment", true
					case has(global, nm):
						want, src, defined = global[nm], "the global environment", true
					case has(envCmd, nm):
						want, src, defined = envCmd[nm], "env_cmds", true
					case has(sc.Environ, nm):
						want, src, defined = sc.Environ[nm], "the inherited environment", true
					}
					got, present := envOf(in, nm)
					if defined && (!present || got != want) {
						add("wrong-variable-value", src, fmt.Sprintf("%s was launched with %s=%q (present=%v); %s says %q", where, nm, got, present, src, want), in.ExecSeq)
						return vs
					}
				}
				if p.WorkingDir != "" && in.Dir != p.WorkingDir && !strings.HasSuffix(in.Dir, "/"+p.WorkingDir) {
					add("wrong-working-directory", "", fmt.Sprintf("%s runs in %q; configured %s", where, in.Dir, p.WorkingDir), in.ExecSeq)
					return vs
				}
				if p.CmdTail != "" {
					wantCmd := "simproc " + strings.ReplaceAll(p.Token, "{{.PC_REPLICA_NUM}}", fmt.Sprint(k)) + " " + load(p.CmdTail)
					if !strings.HasSuffix(in.Args, wantCmd) {
						add("wrong-expansion", fmt.Sprintf("noexpand=%v", spec.NoExpand), fmt.Sprintf("%s was launched as %q; the command line %q must become %q", where, in.Args, "simproc "+p.Token+" "+p.CmdTail, wantCmd), in.ExecSeq)
						return vs
					}
				}
			}
		}
	}
	return vs
}

func has(m map[string]string, k string) bool { _, ok := m[k]; return ok }

func genC17(r *R, sc *Scenario, tier string) {
	spec := &ProjectSpec{}
	sc.Project = spec
	sc.Scripts = map[string]*TokenScript{}
	sc.Dirs = []string{"d1", "d2"}
	vals := []string{"a1", "b2", "c3", "", "x-y", "with_underscore"}
	pool := []string{"VQ_A", "VQ_B", "VQ_C", "VQ_D", "VQ_E"}
	sc.Environ = map[string]string{}
	for _, nm := range pool {
		if r.P(500) {
			sc.Environ[nm] = Pick(r, vals...)
		}
	}
	if r.P(150) {
		// process-compose started from inside another process-compose
		sc.Environ["PC_PROC_NAME"] = "outer"
		sc.Environ["PC_REPLICA_NUM"] = "7"
	}
	if r.P(400) {
		var lines []string
		for _, nm := range pool {
			if r.P(500) {
				lines = append(lines, nm+"=env"+Pick(r, "1", "2"))
			}
		}
		if len(lines) > 0 {
			sc.Files = map[string]string{".env": strings.Join(lines, "\n") + "\n"}
		}
	}
	spec.NoExpand = r.P(150)
	ref := func() string {
		nm := pool[r.Intn(len(pool))]
		return Pick(r, "$"+nm, "${"+nm+"}", "$$"+nm, "$${"+nm+"}", "pre${"+nm+"}post", "$"+nm+"-x", "lit")
	}
	for _, nm := range pool {
		if r.P(300) {
			spec.Env = append(spec.Env, nm+"="+Pick(r, "g1", "g2", ref()))
		}
	}
	if r.P(400) {
		spec.Env = append(spec.Env, "VQ_G="+ref())
	}
	if r.P(400) {
		spec.EnvCmds = map[string]string{}
		for i := 0; i < r.Range(1, 2); i++ {
			name := Pick(r, "VQ_CMD1", "VQ_CMD2", "VQ_A") // VQ_A may also be inherited or the process's own
			dup := false
			for _, e := range spec.Env {
				if strings.HasPrefix(e, name+"=") {
					dup = true // the statement does not order env_cmds against the global list
				}
			}
			if dup {
				continue
			}
			tok := fmt.Sprintf("e%d", i)
			spec.EnvCmds[name] = tok
			s := simos.Script{LifeMs: Pick(r, 5, 100), OutputText: Pick(r, "cmdout\n", "  spaced  \n", "v")}
			if r.P(400) {
				s.ErrText = "warning: deprecated option\n" // stderr is not part of the value
			}
			switch r.Intn(6) {
			case 0:
				s.Exit = 1
			case 1:
				s.LifeMs = -1 // hangs until its 2 s time-out
			}
			sc.Scripts["simenv:"+tok] = &TokenScript{Launches: []simos.Script{s}}
		}
	}
	n := r.Range(1, 3)
	for i := 0; i < n; i++ {
		p := &ProcSpec{Name: fmt.Sprintf("v%d", i), Token: fmt.Sprintf("v%d", i)}
		if r.P(300) {
			p.Replicas = r.Range(2, 3)
			p.Token = p.Name + ".{{.PC_REPLICA_NUM}}"
			sc.Scripts[p.Name+".*"] = &TokenScript{Launches: []simos.Script{{LifeMs: Pick(r, 100, 400)}}}
		} else {
			sc.Scripts[p.Token] = &TokenScript{Launches: []simos.Script{{LifeMs: Pick(r, 100, 400), Exit: Pick(r, 0, 1)}}}
		}
		for _, nm := range pool {
			if r.P(300) {
				p.Env = append(p.Env, nm+"="+Pick(r, "p1", "p2", ref()))
			}
		}
		if r.P(500) {
			var parts []string
			for k := r.Range(1, 3); k > 0; k-- {
				parts = append(parts, ref())
			}
			p.CmdTail = strings.Join(parts, " ")
		}
		if r.P(300) {
			p.WorkingDir = Pick(r, "d1", "d2")
		}
		if r.P(250) && p.Replicas == 0 {
			p.Restart = "on_failure"
			p.MaxRestarts = 1
		}
		spec.Procs = append(spec.Procs, p)
	}
	if r.P(300) {
		sc.Clients = append(sc.Clients, Client{Name: "c", Ops: []Op{{AtMs: 3500, Op: Pick(r, "restart", "start"), Arg: ReplicaNames(spec.Procs[0].Name, spec.Procs[0].Replicas)[0]}}}) // after env_cmds (2 s time-out) have been evaluated
	}
	sc.RunForMs = 6000
	if r.P(250) {
		// a live update / reload in between: what is launched afterwards (the changed process,
		// and whatever is started again) still gets everything - env_cmds results included
		up := cloneSpec(spec)
		q := up.Procs[len(up.Procs)-1]
		q.Env = append(q.Env, "UPD=1")
		if r.P(400) {
			// nothing changes but what follows the second '=' of a value
			for _, p0 := range spec.Procs {
				if p0.Name == q.Name {
					p0.Env = append(p0.Env, "UPD=--level=1")
				}
			}
			q.Env[len(q.Env)-1] = "UPD=--level=2"
		}
		sc.Updates = []*ProjectSpec{up}
		first := ReplicaNames(spec.Procs[0].Name, spec.Procs[0].Replicas)[0]
		sc.Clients = append(sc.Clients, Client{Name: "u", Ops: []Op{{AtMs: 4200, Op: Pick(r, "update", "reload"), N: 0}, {AtMs: 5500, Op: Pick(r, "restart", "start"), Arg: first}}})
		sc.RunForMs = 8000
	}
	sc.Strategy = genStrategy(r)
	sc.Strategy.StallPermille = 0
	sc.IterMode = Pick(r, 0, 0, 1, 2, 3)
	sc.IterRot = r.Intn(7)
	sc.QuietMs = 500
	sc.Arm = "env"
}
