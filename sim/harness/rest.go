package harness

import (
	"bytes"
	"sort"
	"encoding/json"
	"fmt"
	"io"
	"net/http"
	"net/http/httptest"
	"strings"

	"github.com/f1bonacc1/process-compose/src/api"
	"github.com/f1bonacc1/process-compose/src/app"
	"github.com/f1bonacc1/process-compose/src/client"
	"github.com/gin-gonic/gin"

	"verifrt/simlog"
	"verifrt/simsync"
)

// simTransport is the "network" between the bundled client and the REST server: a request
// is served by the gin engine on the calling task, synchronously (no sockets in simulation).
type simTransport struct{ eng http.Handler }

func (s *simTransport) RoundTrip(req *http.Request) (*http.Response, error) {
	rec := httptest.NewRecorder()
	s.eng.ServeHTTP(rec, req)
	resp := rec.Result()
	resp.Request = req
	simlog.Add(simlog.Event{Kind: "http", A: req.Method + " " + req.URL.RequestURI(), N: resp.StatusCode})
	// like a real transport: a request whose context has ended meanwhile (a deadline or a
	// time-out the client put on it) fails, whatever the server did with it
	if err := req.Context().Err(); err != nil {
		simlog.Add(simlog.Event{Kind: "http.cancelled", A: req.Method + " " + req.URL.RequestURI(), B: err.Error()})
		return nil, err
	}
	return resp, nil
}

// restSetup builds the REST server over the runner and the bundled client over it.
func (rc *runCtx) restSetup() {
	gin.SetMode(gin.ReleaseMode)
	eng := api.InitRoutes(false, api.NewPcApi(rc.runner))
	rc.eng = eng
	rc.rest = client.VerifNewClient(&simTransport{eng}, 1000)
}

// HTTPResult is what a raw request returned
type HTTPResult struct {
	Status int    `json:"status"`
	Body   string `json:"body"`
	Panic  string `json:"panic,omitempty"`
}

func (rc *runCtx) rawHTTP(method, path, body string) (res *HTTPResult) {
	res = &HTTPResult{}
	defer func() {
		if r := recover(); r != nil {
			res.Panic = fmt.Sprint(r)
		}
	}()
	var rd io.Reader
	if body != "" {
		rd = strings.NewReader(body)
	}
	req, err := http.NewRequest(method, "http://sim"+path, rd)
	if err != nil {
		res.Status = -1
		res.Body = err.Error()
		return res
	}
	if body != "" {
		req.Header.Set("Content-Type", "application/json")
	}
	rec := httptest.NewRecorder()
	rc.eng.ServeHTTP(rec, req)
	res.Status = rec.Code
	b := rec.Body.String()
	if len(b) > 400 {
		b = b[:400]
	}
	res.Body = b
	simlog.Add(simlog.Event{Kind: "http", A: method + " " + path, N: rec.Code})
	return res
}

// CmpResult: the same read through the runner, through REST+client, and through the runner again
type CmpResult struct {
	Kind            string `json:"kind"`
	Direct1, Direct2 string
	Rest            string
	DirectErr, RestErr string
}

func jsonOf(v any, err error) (string, string) {
	if err != nil {
		return "", err.Error()
	}
	b, _ := json.Marshal(v)
	return string(b), ""
}

func (rc *runCtx) cmpRead(kind, arg string) *CmpResult {
	read := func(p app.IProject) (string, string) {
		switch kind {
		case "state":
			return jsonOf(p.GetProcessState(arg))
		case "states":
			st, err := p.GetProcessesState()
			if st != nil {
				// the order of the list is not part of the answer
				sort.Slice(st.States, func(i, j int) bool { return st.States[i].Name < st.States[j].Name })
			}
			return jsonOf(st, err)
		case "info":
			return jsonOf(p.GetProcessInfo(arg))
		case "names":
			if p == app.IProject(rc.proj) {
				// the client derives the names from GET /processes: the corresponding direct
				// call is GetProcessesState (which, unlike the runner's own name list, fails
				// while a concurrent scale request is renaming the replicas)
				st, err := p.GetProcessesState()
				if err != nil {
					return "", err.Error()
				}
				names := make([]string, 0, len(st.States))
				for _, x := range st.States {
					names = append(names, x.Name)
				}
				sort.Strings(names)
				return jsonOf(names, nil)
			}
			return jsonOf(p.GetLexicographicProcessNames())
		case "ports":
			return jsonOf(p.GetProcessPorts(arg))
		case "hostname":
			return jsonOf(p.GetHostName())
		case "projstate":
			st, err := p.GetProjectState(false)
			if st != nil {
				c := *st
				c.MemoryState = nil
				return jsonOf(&c, err)
			}
			return jsonOf(st, err)
		}
		return "", "harness: unknown kind"
	}
	simsync.Prefer(simsync.CurrentTask())
	defer simsync.Prefer(nil)
	r := &CmpResult{Kind: kind}
	r.Direct1, r.DirectErr = read(rc.proj)
	r.Rest, r.RestErr = read(rc.rest)
	d2, e2 := read(rc.proj)
	r.Direct2 = d2
	if e2 != r.DirectErr {
		r.Direct2 = "<err changed> " + e2
	}
	return r
}

// restLogs reads a process's log through the REST route (the bundled client has no such call)
func (rc *runCtx) restLogs(name string, off, lim int) ([]string, error) {
	res := rc.rawHTTP("GET", fmt.Sprintf("/process/logs/%s/%d/%d", name, off, lim), "")
	if res.Status != 200 {
		return nil, fmt.Errorf("status %d: %s", res.Status, res.Body)
	}
	var out struct {
		Logs []string `json:"logs"`
	}
	if err := json.NewDecoder(bytes.NewBufferString(res.Body)).Decode(&out); err != nil {
		return nil, err
	}
	return out.Logs, nil
}
