package harness

import (
	"time"
	"encoding/json"
	"fmt"
	"strings"

	"verifrt/simos"
)

// ---- C11: every line a process writes reaches its log, once, in order ----

type expLine struct {
	text    string
	stream  int
	launch  int
	partial bool // what had been read of a line when the pipe failed (fault F6)
}

// expectedLines reconstructs, from the simulated kernel's write events, the lines each
// replica wrote per launch and stream (a final piece without newline is a line too).
func expectedLines(sc *Scenario, t *Truth) map[string][]expLine {
	out := map[string][]expLine{}
	for rep, insts := range t.ByRep {
		for li, in := range insts {
			acc := map[int]string{}
			for _, w := range in.Writes {
				acc[w.Stream] += w.Text
			}
			// fault F6: the supervisor's read of stdout fails once so many bytes were read;
			// what was read until then is owed, the unfinished line included
			cut := false
			if scr := scriptOfInst(sc, t, in); scr != nil && scr.ReadErrAt > 0 && len(acc[1]) > scr.ReadErrAt {
				acc[1] = acc[1][:scr.ReadErrAt]
				cut = true
			}
			for _, st := range []int{1, 2} {
				if acc[st] == "" {
					continue
				}
				parts := strings.Split(acc[st], "\n")
				unfinished := parts[len(parts)-1] != ""
				if !unfinished {
					parts = parts[:len(parts)-1]
				}
				for i, p := range parts {
					out[rep] = append(out[rep], expLine{p, st, li, cut && st == 1 && unfinished && i == len(parts)-1})
				}
			}
		}
	}
	return out
}

func checkLines(where, rep string, got []string, exp []expLine, complete bool) *Violation {
	norm := func(s string) string { return s }
	if where == "log-file" {
		// the plain-text file format does not preserve trailing blanks
		norm = func(s string) string { return strings.TrimRight(s, " \t") }
	}
	pos := map[string][]int{}
	for i, l := range got {
		pos[norm(l)] = append(pos[norm(l)], i)
	}
	lastPos := map[string]int{}
	for _, e := range exp {
		ps := pos[norm(e.text)]
		key := fmt.Sprintf("%d/%d", e.launch, e.stream)
		if len(ps) == 0 {
			if complete {
				kind := "line-lost"
				d := describeLine(e)
				return &Violation{"C11", kind + "-" + where, d, fmt.Sprintf("%s: line %q (launch %d, stream %d) was written before the process exited but is not in the %s", rep, clipStr(e.text, 80), e.launch, e.stream, where), 0}
			}
			continue
		}
		if e.partial {
			continue // present: that is all that can be said of a piece of a line
		}
		if len(ps) > 1 {
			return &Violation{"C11", "line-duplicated-" + where, "", fmt.Sprintf("%s: line %q occurs %d times in the %s", rep, clipStr(e.text, 80), len(ps), where), 0}
		}
		if lp, ok := lastPos[key]; ok && ps[0] < lp {
			return &Violation{"C11", "line-order-" + where, "", fmt.Sprintf("%s: line %q appears before an earlier line of the same stream in the %s", rep, clipStr(e.text, 80), where), 0}
		}
		lastPos[key] = ps[0]
	}
	return nil
}

func describeLine(e expLine) string {
	switch {
	case len(e.text) > 4000:
		return "long-line"
	case strings.HasSuffix(e.text, "<nonl>"):
		return "final-line-without-newline"
	}
	return "ordinary"
}

func clipStr(s string, n int) string {
	if len(s) > n {
		return s[:n] + "..."
	}
	return s
}

func checkC11(sc *Scenario, res *RunResult, t *Truth) []Violation {
	var vs []Violation
	exp := expectedLines(sc, t)
	total := 0
	for _, e := range exp {
		total += len(e)
	}
	logLen := sc.Project.LogLength
	if logLen == 0 {
		logLen = 1000
	}
	for _, rep := range sortedNames(exp) {
		p := sc.specOfReplica(rep)
		if p == nil || p.IsDaemon {
			continue
		}
		// the command must have ended (and been reaped) for the obligation to hold
		ended := true
		for _, in := range t.ByRep[rep] {
			if in.ExitSeq < 0 || in.ReapSeq < 0 {
				ended = false
			}
		}
		if !ended {
			continue
		}
		got := res.FinalLogs[rep]
		complete := len(exp[rep])+8*len(t.ByRep[rep]) <= logLen
		if v := checkLines("memory-log", rep, got, exp[rep], complete); v != nil {
			vs = append(vs, *v)
		} else if !complete {
			// more was written than the log keeps: what is kept are the most recent lines, so
			// per stream a gap-free suffix of what was written, and at least log_length lines
			if len(got) < logLen && len(exp[rep]) >= logLen {
				vs = append(vs, Violation{"C11", "memory-log-shorter-than-configured", "", fmt.Sprintf("%s wrote %d lines but its log (log_length %d) holds only %d", rep, len(exp[rep]), logLen, len(got)), 0})
				continue
			}
			in := map[string]bool{}
			for _, l := range got {
				in[l] = true
			}
			for stream := 1; stream <= 2; stream++ {
				seen := false
				first := ""
				for _, e := range exp[rep] {
					if e.stream != stream || e.partial {
						continue // (a piece of a line says nothing about which lines are kept)
					}
					if in[e.text] {
						if !seen {
							first = e.text
						}
						seen = true
					} else if seen {
						vs = append(vs, Violation{"C11", "memory-log-gap", "", fmt.Sprintf("%s: line %q (stream %d) is missing from the log although the earlier line %q of the stream is still there (log_length %d, %d lines written, %d kept)", rep, clipStr(e.text, 80), stream, clipStr(first, 40), logLen, len(exp[rep]), len(got)), 0})
						break
					}
				}
			}
		}
	}
	// the log file of a process at the moment its state says that it has ended
	for _, c := range t.Calls {
		fs, ok := c.Data.(*FileSnap)
		if !ok || fs == nil || fs.Status == "still running" || c.Err != "" {
			continue
		}
		var got []string
		for _, ln := range strings.Split(fs.Content, "\n") {
			if ln == "" {
				continue
			}
			if strings.HasPrefix(ln, "{") {
				var rec map[string]any
				if json.Unmarshal([]byte(ln), &rec) == nil {
					msg, _ := rec["message"].(string)
					got = append(got, msg)
					continue
				}
			}
			got = append(got, ln)
		}
		// every launch of the process had ended by then: all of its lines are due
		owner := fileOwner(sc, fs.Name)
		if v := checkLines("log-file", owner, got, exp[owner], true); v != nil {
			v.Class += "-when-reported-ended"
			v.Msg += fmt.Sprintf(" at the moment its state said %s (t=%v)", fs.Status, c.RetT)
			vs = append(vs, *v)
			return vs
		}
	}
	// every command ends by itself: so does the project (an output handler that is stuck keeps
	// its process "running" for ever)
	if t.RunRet < 0 && !t.Hang && t.EndT > 100*time.Second {
		allDead := true
		for _, in := range t.Insts {
			if in.Kind == "simproc" && in.ExitSeq < 0 {
				allDead = false
			}
		}
		if allDead {
			vs = append(vs, Violation{"C11", "output-handling-stuck", "", fmt.Sprintf("every command has exited but Run() had not returned %v after the start", t.EndT), 0})
			return vs
		}
	}
	// log files, once Run() has returned
	if t.RunRet >= 0 {
		fileLines := map[string][]string{} // replica -> messages found in any file
		for name, content := range res.Files {
			for _, ln := range strings.Split(content, "\n") {
				if ln == "" {
					continue
				}
				if strings.HasPrefix(ln, "{") {
					var rec map[string]any
					if json.Unmarshal([]byte(ln), &rec) == nil {
						proc, _ := rec["process"].(string)
						msg, _ := rec["message"].(string)
						if proc == "" {
							proc = fileOwner(sc, name)
						}
						fileLines[proc] = append(fileLines[proc], msg)
						continue
					}
				}
				fileLines[fileOwner(sc, name)] = append(fileLines[fileOwner(sc, name)], ln)
			}
		}
		for _, rep := range sortedNames(exp) {
			p := sc.specOfReplica(rep)
			if p == nil || p.IsDaemon {
				continue
			}
			if p.LogLocation == "" && sc.Project.LogLocation == "" {
				continue
			}
			if strings.HasPrefix(p.LogLocation, "blocker/") || p.LogLocation == "/dev/full" {
				continue // (that file cannot exist)
			}
			got := fileLines[rep]
			if p.LogLocation == "" && sc.Project.LogNoJSON {
				got = fileLines["*"] // unified plain file: no attribution, lines are unique anyway
			}
			if v := checkLines("log-file", rep, got, exp[rep], true); v != nil {
				vs = append(vs, *v)
			}
		}
	}
	return vs
}

// fileOwner: which replica a per-process log file belongs to ("*" for the project file).
func fileOwner(sc *Scenario, fname string) string {
	for _, p := range sc.Project.Procs {
		if p.LogLocation != "" && (fname == p.LogLocation || strings.HasPrefix(fname, p.LogLocation+".")) {
			return p.Name
		}
	}
	return "*"
}

// genOutput fills a launch with unique lines on both streams.
func genOutput(r *R, s *simos.Script, proc string, launch int, minLines int) {
	n := Pick(r, 0, 1, 3, 8, 20, 60)
	if r.P(50) {
		n = r.Range(100, 300)
	}
	if minLines > 0 {
		// enough lines to make the in-memory log drop its oldest ones several times
		n = r.Range(minLines, minLines+250)
	}
	life := s.LifeMs
	if life < 0 {
		life = 3000
	}
	for i := 0; i < n; i++ {
		at := r.Intn(life + 1)
		if r.P(250) {
			at = life // burst right before exit
		}
		text := fmt.Sprintf("%s/%d/%d", proc, launch, i)
		switch r.Intn(12) {
		case 0:
			if minLines > 0 {
				text += "/" + strings.Repeat("x", 200)
			} else {
				text += "/" + strings.Repeat("x", Pick(r, 4096, 5000, 70000, 100000))
			}
		case 1:
			text += "  trailing spaces  "
		case 2:
			text += "\ttab\tsep"
		}
		s.Out = append(s.Out, simos.OutChunk{AtMs: at, Stream: Pick(r, 1, 1, 2), Data: text + "\n"})
	}
	sortOut(s.Out)
	// a final line without trailing newline on one stream
	if n > 0 && r.P(350) {
		last := &s.Out[len(s.Out)-1]
		last.Data = strings.TrimSuffix(last.Data, "\n") + "<nonl>"
		// it must be the last chunk of its stream
	}
	// sometimes several lines in one write, or a line split over two writes
	if n > 2 && r.P(400) {
		i := r.Intn(len(s.Out) - 1)
		if s.Out[i].Stream == s.Out[i+1].Stream && s.Out[i].AtMs == s.Out[i+1].AtMs {
			s.Out[i].Data += s.Out[i+1].Data
			s.Out = append(s.Out[:i+1], s.Out[i+2:]...)
		}
	}
	s.ChunkMode = r.Intn(3)
	bytes := 0
	for _, o := range s.Out {
		bytes += len(o.Data)
	}
	if bytes > 3000 && s.ChunkMode == 2 {
		s.ChunkMode = 1 // byte-by-byte delivery of large outputs only burns scheduler steps
	}
}
