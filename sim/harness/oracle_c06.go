package harness

import (
	"fmt"
	"strings"
	"time"

	"verifrt/simos"
)

// ---- C06: OS-level stop ----

type sigEv struct {
	Seq    int
	T      time.Duration
	Target int // pid, or -pgid
	Sig    int
	Task   int
	Err    string // "ESRCH", "injected ..." or ""
}

func effSignal(p *ProcSpec) int {
	if p.Signal == nil || *p.Signal < 1 || *p.Signal > 31 {
		return 15
	}
	return *p.Signal
}

// descendants of a command (children forked at launch, recursively)
func descendants(t *Truth, root *Inst) []*Inst {
	var r []*Inst
	var walk func(pid int)
	walk = func(pid int) {
		for _, in := range t.Insts {
			if in.Kind == "child" && in.Ppid == pid {
				r = append(r, in)
				walk(in.Pid)
			}
		}
	}
	walk(root.Pid)
	return r
}

func checkC06(sc *Scenario, res *RunResult, t *Truth) []Violation {
	var vs []Violation
	add := func(class, disc, msg string, seq int) {
		vs = append(vs, Violation{"C06", class, disc, msg, seq})
	}
	// every signal the code under test sent
	var sigs []sigEv
	for i := range t.Events {
		e := &t.Events[i]
		if e.Kind == "os.kill" {
			ev := sigEv{Seq: e.Seq, T: e.T, Target: e.Pid, Sig: e.N, Task: e.Task}
			if !strings.HasPrefix(e.A, "delivered:") {
				ev.Err = e.A
			}
			sigs = append(sigs, ev)
		}
	}
	stopCmdRuns := map[string][]*Inst{}
	for _, in := range t.Insts {
		if in.Kind == "simstop" {
			stopCmdRuns[in.Token] = append(stopCmdRuns[in.Token], in)
		}
	}
	for _, p := range sc.Project.Procs {
		want := effSignal(p)
		for _, L := range t.ByRep[p.Name] {
			// signals aimed at this command (its pid or its group)
			var mine []sigEv
			for _, s := range sigs {
				if (s.Target == L.Pid || s.Target == -L.Pgid) && s.Seq > L.ExecSeq {
					mine = append(mine, s)
				}
			}
			if len(mine) == 0 && p.StopCmd == "" {
				continue
			}
			var first *sigEv
			for i := range mine {
				if mine[i].Sig != 9 || first == nil {
					if first == nil {
						first = &mine[i]
					}
				}
			}
			if p.StopCmd == "" && first != nil {
				if first.Sig != want {
					add("wrong-stop-signal", fmt.Sprintf("want=%d got=%d", want, first.Sig), fmt.Sprintf("%s (pid %d) was stopped with signal %d; the configured signal means %d", p.Name, L.Pid, first.Sig, want), first.Seq)
					continue
				}
				if p.ParentOnly && first.Target != L.Pid {
					add("parent-only-ignored", "", fmt.Sprintf("%s has parent_only but signal %d went to %d (its pid is %d)", p.Name, first.Sig, first.Target, L.Pid), first.Seq)
					continue
				}
				if !p.ParentOnly && first.Target != -L.Pgid {
					add("signal-not-to-group", "", fmt.Sprintf("%s: signal %d went to %d; its process group is %d", p.Name, first.Sig, first.Target, L.Pgid), first.Seq)
					continue
				}
			}
			// SIGKILL escalation
			if p.StopCmd == "" && first != nil {
				var kill *sigEv
				for i := range mine {
					if mine[i].Sig == 9 && mine[i].Seq > first.Seq && want != 9 {
						kill = &mine[i]
						break
					}
				}
				if kill != nil {
					if p.StopTimeout == nil {
						add("sigkill-without-timeout", "", fmt.Sprintf("%s has no shutdown time-out but was sent SIGKILL %v after signal %d", p.Name, kill.T-first.T, first.Sig), kill.Seq)
						continue
					}
					if d := kill.T - first.T; d < time.Duration(*p.StopTimeout)*time.Second {
						add("sigkill-before-timeout", "", fmt.Sprintf("%s was sent SIGKILL %v after signal %d; its shutdown time-out is %ds", p.Name, d, first.Sig, *p.StopTimeout), kill.Seq)
						continue
					}
					if L.ExitSeq >= 0 && L.ExitSeq < kill.Seq && L.ReapSeq >= 0 && L.ReapSeq < kill.Seq && t.Events[kill.Seq].T > L.ExitT {
						add("sigkill-after-exit", "", fmt.Sprintf("%s had exited (t=%v) before the time-out but SIGKILL was still sent at t=%v", p.Name, L.ExitT, kill.T), kill.Seq)
						continue
					}
				}
				if kill == nil && p.StopTimeout != nil && want != 9 {
					due := first.T + time.Duration(*p.StopTimeout)*time.Second
					aliveAtDue := L.ExitSeq < 0 || L.ExitT > due
					if aliveAtDue && t.EndT > due+time.Second {
						add("no-sigkill-after-timeout", "", fmt.Sprintf("%s (pid %d) was still alive %ds after signal %d (t=%v) but no SIGKILL followed", p.Name, L.Pid, *p.StopTimeout, first.Sig, first.T), first.Seq)
						continue
					}
				}
			}
		}
		// a shutdown command that cannot even be started has failed: SIGKILL is owed
		if p.StopCmd != "" {
			for i := range t.Events {
				e := &t.Events[i]
				if e.Kind != "os.execfail" || e.Subj != "simstop:"+p.StopCmd {
					continue
				}
				for _, L := range t.ByRep[p.Name] {
					if !L.AliveAt(e.Seq) || (L.ExitSeq >= 0 && L.ExitT <= e.T) {
						continue
					}
					killed := false
					for _, k := range L.Kills {
						if k.Sig == 9 && k.Seq > e.Seq {
							killed = true
						}
					}
					if !killed && t.EndT-e.T > time.Second {
						add("no-sigkill-after-failed-stop-command", "not-started", fmt.Sprintf("the shutdown command of %s could not be started (t=%v: %s) while the process was alive, but no SIGKILL followed", p.Name, e.T, e.A), e.Seq)
					}
				}
			}
		}
		// shutdown command: environment and working directory of the process; SIGKILL only if it fails
		if p.StopCmd != "" {
			for _, run := range stopCmdRuns[p.StopCmd] {
				for _, kv := range p.Env {
					k := kv[:strings.IndexByte(kv, '=')]
					if v, _ := envOf(run, k); v != kv[len(k)+1:] {
						add("stop-command-environment", "", fmt.Sprintf("the shutdown command of %s ran with %s=%q; the process is configured with %s", p.Name, k, v, kv), run.ExecSeq)
					}
				}
				if v, _ := envOf(run, "PC_PROC_NAME"); v != p.Name {
					add("stop-command-environment", "PC_PROC_NAME", fmt.Sprintf("the shutdown command of %s ran with PC_PROC_NAME=%q", p.Name, v), run.ExecSeq)
				}
				if p.WorkingDir != "" && run.Dir != p.WorkingDir && !strings.HasSuffix(run.Dir, "/"+p.WorkingDir) {
					add("stop-command-directory", "", fmt.Sprintf("the shutdown command of %s ran in %q; the process's working directory is %s", p.Name, run.Dir, p.WorkingDir), run.ExecSeq)
				}
				limit := 10 * time.Second // documented default for a shutdown command
				if p.StopTimeout != nil {
					limit = time.Duration(*p.StopTimeout) * time.Second
				}
				if (run.ExitSeq < 0 && t.EndT-run.ExecT > limit+time.Second) || (run.ExitSeq >= 0 && run.ExitT-run.ExecT > limit+time.Second) {
					add("stop-command-not-abandoned", "", fmt.Sprintf("the shutdown command of %s was started at t=%v and was still running %v later; its time-out is %v", p.Name, run.ExecT, limit+time.Second, limit), run.ExecSeq)
					continue
				}
				okRun := run.ExitSeq >= 0 && run.Code == 0 && run.BySig == 0
				// the SIGKILL that follows a failed command goes to the group of the live command
				for _, L := range t.ByRep[p.Name] {
					if !L.AliveAt(run.ExecSeq) {
						continue
					}
					var kill *sigEv
					for i := range sigs {
						s := &sigs[i]
						if s.Sig == 9 && (s.Target == L.Pid || s.Target == -L.Pgid) && s.Seq > run.ExecSeq {
							kill = s
							break
						}
					}
					if okRun && kill != nil && (run.ExitSeq < 0 || kill.Seq > run.ExitSeq) && kill.T-run.ExitT < 20*time.Second {
						// (a later, separate stop request may legitimately escalate)
						later := false
						for _, r2 := range stopCmdRuns[p.StopCmd] {
							if r2.ExecSeq > run.ExecSeq && r2.ExecSeq < kill.Seq {
								later = true
							}
						}
						if !later {
							add("sigkill-after-successful-stop-command", "", fmt.Sprintf("the shutdown command of %s succeeded (t=%v) but SIGKILL was sent at t=%v", p.Name, run.ExitT, kill.T), kill.Seq)
						}
					}
					// (a command that ends by itself at the very instant at which the shutdown
					// command fails is gone when the SIGKILL is attempted: ESRCH, nothing recorded)
					if !okRun && run.ExitSeq >= 0 && kill == nil && L.AliveAt(run.ExitSeq) && (L.ExitSeq < 0 || L.ExitT > run.ExitT) && t.EndT-run.ExitT > time.Second {
						add("no-sigkill-after-failed-stop-command", "", fmt.Sprintf("the shutdown command of %s failed (t=%v, code %d, signal %d) while the process was alive, but no SIGKILL followed", p.Name, run.ExitT, run.Code, run.BySig), run.ExitSeq)
					}
				}
			}
		}
	}
	// after the project shutdown: nobody is left
	var shut *Call
	for _, c := range t.Calls {
		if (c.Op == "shutdown" || (c.Op == "signal" && c.Err == "")) && c.RetSeq >= 0 && (shut == nil || c.CallSeq < shut.CallSeq) {
			shut = c
		}
	}
	// a signal sent to the binary shuts the project down by itself
	for _, c := range t.Calls {
		if c.Op != "signal" {
			continue
		}
		if c.Err != "" {
			// nobody listens (anymore): the default disposition of SIGTERM / SIGINT / SIGHUP
			// kills process-compose on the spot - whatever is still alive is orphaned
			var orphans []string
			for _, in := range t.LiveAt(c.CallSeq) {
				if in.Kind == "simproc" {
					orphans = append(orphans, fmt.Sprintf("%s(pid %d)", in.Replica, in.Pid))
				}
			}
			if len(orphans) > 0 {
				add("binary-killed-by-signal", "", fmt.Sprintf("%s at t=%v found no handler (%s): process-compose would die with %v still alive", c.Desc, c.CallT, c.Err, orphans), c.RetSeq)
			}
			continue
		}
		// only the first signal is owed a shutdown (the handler serves one), and a start-like
		// request that relaunches its process around it is C03's subject
		overlap := c.Idx > 0
		for _, c2 := range t.Calls {
			if c2.Op == "restart" || c2.Op == "start" {
				overlap = true
			}
		}
		for _, c2 := range t.Calls {
			if !overlap && c2.Op == "shutdown" && c2.Client == "main" && c2.CallSeq > c.CallSeq && (t.RunRet < 0 || t.RunRet > c2.CallSeq) {
				add("signal-did-not-shut-down", c.Desc, fmt.Sprintf("%s was delivered to the binary at t=%v but Run() had not returned %v later", c.Desc, c.CallT, c2.CallT-c.CallT), c2.CallSeq)
			}
		}
	}
	// a command that was running when the shutdown was requested must at least have been sent a
	// signal (a shutdown that waits for ever on a command it never signalled does not return,
	// so the clause below would never see it)
	if shut != nil {
		for _, p := range sc.Project.Procs {
			if p.StopCmd != "" {
				continue
			}
			for _, L := range t.ByRep[p.Name] {
				if L.ExecSeq < shut.CallSeq && L.ExitSeq < 0 && len(L.Kills) == 0 && t.EndT-shut.CallT > 30*time.Second {
					add("command-never-signalled", "", fmt.Sprintf("%s (pid %d, launched at t=%v) was running when the project shutdown was requested at t=%v and has not been sent any signal %v later", p.Name, L.Pid, L.ExecT, shut.CallT, t.EndT-shut.CallT), shut.CallSeq)
				}
			}
		}
	}
	// once a project shutdown has returned, nothing that nobody asked for is launched any more:
	// a command registered behind the shutdown's back has no one left to stop it
	if shut != nil && shut.Op == "shutdown" {
		for _, p := range sc.Project.Procs {
			asked := false
			for _, c := range t.Calls {
				if (c.Op == "start" || c.Op == "restart") && c.Arg == p.Name {
					asked = true
				}
			}
			for _, L := range t.ByRep[p.Name] {
				if !asked && L.ExecSeq > shut.RetSeq {
					add("launched-after-shutdown-returned", "", fmt.Sprintf("%s (pid %d) was launched at t=%v, after the project shutdown requested at t=%v had returned at t=%v", p.Name, L.Pid, L.ExecT, shut.CallT, shut.RetT), L.ExecSeq)
				}
			}
		}
	}
	if t.RunRet >= 0 && !t.Hang && shut != nil {
		for _, p := range sc.Project.Procs {
			if p.ParentOnly {
				continue // descendants are deliberately left alone
			}
			sig := effSignal(p)
			for _, L := range t.ByRep[p.Name] {
				if L.ExecSeq > shut.CallSeq {
					// launched after the shutdown was requested: nobody asked for it, and it is
					// still there
					asked := false
					for _, c := range t.Calls {
						if (c.Op == "start" || c.Op == "restart") && c.Arg == p.Name {
							asked = true
						}
					}
					if !asked && L.ExitSeq < 0 {
						add("survivor-after-shutdown", "launched-after-request", fmt.Sprintf("%s (pid %d) was launched at t=%v, after the project shutdown had been requested at t=%v, and is still alive at the end", p.Name, L.Pid, L.ExecT, shut.CallT), L.ExecSeq)
					}
					continue
				}
				ignores := func(in *Inst, s int) bool {
					scr := scriptOfInst(sc, t, in)
					if scr == nil {
						return false
					}
					for _, x := range scr.Ignore {
						if x == s {
							return true
						}
					}
					return false
				}
				members := append([]*Inst{L}, descendants(t, L)...)
				parentIgnores := ignores(L, sig)
				for _, m := range members {
					if m.Pgid != L.Pgid {
						continue // left the group on its own (setsid): out of reach by design
					}
					if m.ExitSeq >= 0 && !(sc.ViaCmd && m == L && t.RunRet > shut.CallSeq && m.ExecSeq < t.RunRet && m.ExitSeq > t.RunRet) {
						continue // (when the binary has returned nobody is left to stop anything)
					}
					// owed: it does not ignore the stop signal, or SIGKILL to the group was due
					killDue := p.StopTimeout != nil && (parentIgnores || p.StopCmd != "")
					if ms := scriptOfInst(sc, t, m); ms != nil && ms.HoldsPipes && p.StopTimeout != nil && !p.ParentOnly {
						killDue = true // the supervisor still waits for the pipes it holds
					}
					if p.StopCmd != "" {
						continue // the command decides what happens to the tree
					}
					if ignores(m, sig) && !killDue {
						continue
					}
					if L.ExitSeq < 0 && m != L {
						continue // reported once, for the parent
					}
					add("survivor-after-shutdown", fmt.Sprintf("member=%v", m != L), fmt.Sprintf("after the project shutdown pid %d (%s, %s of %s) is still alive", m.Pid, m.Token, map[bool]string{true: "descendant", false: "the command"}[m != L], p.Name), t.RunRet)
				}
			}
		}
	}
	return vs
}

// scriptOfInst finds the script a command or a forked child runs
func scriptOfInst(sc *Scenario, t *Truth, in *Inst) *simos.Script {
	if in.Kind == "simproc" {
		ts := sc.Scripts[in.Token]
		if ts == nil || len(ts.Launches) == 0 {
			return nil
		}
		n := 0
		for _, o := range t.ByToken[in.Token] {
			if o.ExecSeq < in.ExecSeq {
				n++
			}
		}
		if n >= len(ts.Launches) {
			n = len(ts.Launches) - 1
		}
		return &ts.Launches[n]
	}
	// child token: "<parent token>/c<i>/c<j>..."
	parts := strings.Split(in.Token, "/")
	var root *Inst
	for _, o := range t.Insts {
		if o.Kind == "simproc" && o.Token == parts[0] && o.ExecSeq < in.ExecSeq {
			root = o
		}
	}
	if root == nil {
		return nil
	}
	cur := scriptOfInst(sc, t, root)
	for _, p := range parts[1:] {
		var i int
		if cur == nil {
			return nil
		}
		if _, err := fmt.Sscanf(p, "c%d", &i); err != nil || i >= len(cur.Children) {
			return nil
		}
		cur = &cur.Children[i]
	}
	return cur
}

func genC06(r *R, sc *Scenario, tier string) {
	spec := &ProjectSpec{}
	sc.Project = spec
	sc.Scripts = map[string]*TokenScript{}
	sc.Dirs = []string{"d1"}
	n := r.Range(1, 3)
	sigVals := []int{1, 2, 3, 9, 10, 12, 15, 31, 0, -3, 32, 64}
	for i := 0; i < n; i++ {
		p := &ProcSpec{Name: fmt.Sprintf("k%d", i), Token: fmt.Sprintf("k%d", i)}
		if r.P(600) {
			p.Signal = iptr(sigVals[r.Intn(len(sigVals))])
		}
		sig := effSignal(p)
		p.ParentOnly = r.P(150)
		if r.P(450) {
			p.StopTimeout = iptr(Pick(r, 1, 2, 4))
		}
		if r.P(300) {
			p.Env = []string{"K=" + Pick(r, "a", "b")}
		}
		if r.P(250) {
			p.WorkingDir = "d1"
		}
		parentIgnores := r.P(250) && sig != 9
		member := func(depth int) simos.Script {
			s := simos.Script{LifeMs: -1, TermLagMs: Pick(r, 0, 0, 5, 300, 2500)}
			if parentIgnores && r.P(600) && sig != 9 {
				s.Ignore = []int{sig} // ignoring members only below an ignoring parent (see DESIGN)
			}
			return s
		}
		root := simos.Script{LifeMs: -1, TermLagMs: Pick(r, 0, 0, 5, 300, 1500, 5000), ExitOnSig: Pick(r, 0, 0, 143)}
		if parentIgnores {
			root.Ignore = []int{sig}
			if p.StopTimeout == nil {
				p.StopTimeout = iptr(Pick(r, 1, 2, 3))
			}
		}
		for c := r.Intn(3); c > 0; c-- {
			ch := member(1)
			if r.P(400) {
				ch.Children = append(ch.Children, member(2))
			}
			if r.P(80) {
				ch.NewGroup = true
			}
			root.Children = append(root.Children, ch)
		}
		if !parentIgnores && p.StopTimeout != nil && !p.ParentOnly && sig != 9 && sig >= 1 && sig <= 31 && r.P(250) {
			// the parent obeys the stop signal, a child that has inherited its pipes does not:
			// the supervisor is still waiting for the output to end when the time-out expires,
			// and the SIGKILL to the group is what ends the child
			root.Children = append(root.Children, simos.Script{LifeMs: -1, Ignore: []int{sig}, HoldsPipes: true})
		}
		launches := []simos.Script{root, root, root}
		if r.P(250) {
			// the first launch ends by itself, so the stop meets a command the restart policy
			// relaunched
			first := root
			first.LifeMs, first.Exit, first.Children = Pick(r, 500, 1500, 3000), 1, nil
			launches = []simos.Script{first, root, root}
			p.Restart = Pick(r, "always", "on_failure")
			p.Backoff = iptr(1)
		}
		sc.Scripts[p.Token] = &TokenScript{Launches: launches}
		if r.P(250) {
			p.StopCmd = p.Token
			// (the command decides what becomes of the tree: no member that would outlive it)
			for l := range launches {
				var keep []simos.Script
				for _, ch := range launches[l].Children {
					if !(ch.HoldsPipes && len(ch.Ignore) > 0) {
						keep = append(keep, ch)
					}
				}
				launches[l].Children = keep
			}
			var sc2 simos.Script
			switch r.Intn(8) {
			case 0, 1, 2, 3:
				sc2 = simos.Script{LifeMs: Pick(r, 10, 200, 900), Exit: 0, KillToken: p.Token, KillSig: 15, KillAtMs: Pick(r, 0, 5)}
				for l := range launches {
					launches[l].Ignore = nil
				}
			case 4, 5:
				sc2 = simos.Script{LifeMs: Pick(r, 10, 300), Exit: Pick(r, 1, 2, 127)}
			case 6:
				sc2 = simos.Script{LifeMs: 50, Exit: 0} // claims success without stopping anything
				// the process must still end for the stop to finish: it dies shortly by itself
				for l := range launches {
					launches[l].LifeMs = Pick(r, 15000, 25000)
				}
			default:
				sc2 = simos.Script{LifeMs: -1} // hangs until its time-out
				if r.P(400) {
					sc2.Ignore = []int{15} // ... and would not die of a polite signal either
				}
				if r.P(250) {
					sc2 = simos.Script{StartErr: "no such file or directory"} // cannot even be started
				}
			}
			sc.Scripts["simstop:"+p.Token] = &TokenScript{Launches: []simos.Script{sc2}}
		}
		if r.P(200) {
			p.Restart = "always"
			p.Backoff = iptr(1)
		}
		spec.Procs = append(spec.Procs, p)
	}
	// requests: stop / restart of single processes at seeded instants, then the project shutdown
	var ops []Op
	for k := r.Intn(3); k > 0; k-- {
		at := 500 + whenMs(r, 6000)
		if r.P(300) {
			at = Pick(r, 0, 0, 1, 5) // while the commands are being launched
		}
		ops = append(ops, Op{AtMs: at, Op: Pick(r, "stop", "stop", "restart"), Arg: spec.Procs[r.Intn(n)].Name})
	}
	sortOps(ops)
	if len(ops) > 0 {
		sc.Clients = append(sc.Clients, Client{Name: "c", Ops: ops})
	}
	sc.OrderedShutdown = r.P(300)
	if r.P(60) {
		// injection-point sweep: the stop (or the project shutdown) lands at every scheduler step
		// of a baseline run, the launch windows included
		sc.Clients = []Client{{Name: "sweep", Ops: []Op{{Op: Pick(r, "stop", "stop", "shutdown"), Arg: spec.Procs[r.Intn(n)].Name}}}}
		sc.Strategy = genStrategy(r)
		sc.Strategy.StallPermille = 0
		sc.IterMode = Pick(r, 0, 0, 1, 2, 3)
		sc.RunForMs = 8000
		sc.QuietMs = 15000
		sc.Arm = "sweep"
		return
	}
	if r.P(100) {
		// "up --keep-project": everything that starts by itself has ended and Run() has
		// returned; a process is started by hand, then the binary is told to shut down. It
		// leaves only when the shutdown - time-out and SIGKILL included - has run its course.
		spec.Procs = nil
		sc.Scripts = map[string]*TokenScript{}
		spec.Procs = append(spec.Procs, &ProcSpec{Name: "f0", Token: "f0"}, &ProcSpec{Name: "st", Token: "st", Disabled: true, StopTimeout: iptr(Pick(r, 1, 2, 3))})
		sc.Scripts["f0"] = &TokenScript{Launches: []simos.Script{{LifeMs: Pick(r, 100, 500), Exit: 0}}}
		sc.Scripts["st"] = &TokenScript{Launches: []simos.Script{{LifeMs: -1, Ignore: []int{15}}}}
		if r.P(400) {
			st := spec.Procs[1]
			st.StopCmd, st.StopTimeout = "st", iptr(Pick(r, 2, 3))
			sc.Scripts["st"] = &TokenScript{Launches: []simos.Script{{LifeMs: -1}}}
			sc.Scripts["simstop:st"] = &TokenScript{Launches: []simos.Script{{LifeMs: Pick(r, 900, 1500), Exit: 0, KillToken: "st", KillSig: 15, KillAtMs: 800}}}
		}
		sc.ViaCmd, sc.Keep = true, true
		sc.Clients = []Client{{Name: "c", Ops: []Op{{AtMs: 2000, Op: "start", Arg: "st"}}}, {Name: "os", Ops: []Op{{AtMs: Pick(r, 3000, 4000), Op: "signal", N: Pick(r, 15, 2, 1)}}}}
		sc.Strategy = genStrategy(r)
		sc.Strategy.StallPermille = 0
		sc.OrderedShutdown = r.P(300)
		sc.RunForMs = 64000
		sc.QuietMs = 15000
		sc.Arm = "keepproject"
		return
	}
	sigAt := 0
	if r.P(350) {
		// the project is shut down by SIGTERM / SIGINT / SIGHUP sent to the binary
		sc.ViaCmd = true
		sigAt = 1000 + whenMs(r, 8000)
		if r.P(250) {
			sigAt = Pick(r, 0, 0, 1, 10) // while the commands are being launched
		}
		sigOps := []Op{{AtMs: sigAt, Op: "signal", N: Pick(r, 15, 2, 1)}}
		if r.P(400) {
			// an impatient operator: a second signal while the shutdown is under way
			sigOps = append(sigOps, Op{AtMs: sigAt + Pick(r, 100, 500, 1500), Op: "signal", N: Pick(r, 15, 2, 1)})
		}
		sc.Clients = append(sc.Clients, Client{Name: "os", Ops: sigOps})
	}
	sc.Strategy = genStrategy(r)
	sc.Strategy.StallPermille = 0
	sc.IterMode = Pick(r, 0, 0, 1, 2, 3)
	sc.IterRot = r.Intn(7)
	sc.RunForMs = 8000 + whenMs(r, 4000)
	sc.QuietMs = 15000
	sc.Arm = "stop"
	if sc.ViaCmd {
		sc.RunForMs = sigAt + 60000
		sc.Arm = "binsignal"
	}
}

// validC06: a command that ignores its stop signal can only be stopped through a time-out
// (or a shutdown command); the generator never produces anything else
func validC06(sc *Scenario) bool {
	for _, p := range sc.Project.Procs {
		ts := sc.Scripts[p.Token]
		if ts == nil {
			continue
		}
		for _, l := range ts.Launches {
			for _, x := range l.Ignore {
				if x == effSignal(p) && p.StopTimeout == nil {
					return false
				}
			}
		}
	}
	return true
}
