package harness

import (
	"bufio"
	"context"
	neturl "net/url"
	"fmt"
	"net"
	"net/http"
	"time"

	"github.com/f1bonacc1/process-compose/src/api"
	"github.com/f1bonacc1/process-compose/src/client"
	"github.com/gorilla/websocket"

	"verifrt/simlog"
	"verifrt/simnet"
	"verifrt/simsync"
)

// WSFollower is a websocket client of GET /process/logs/ws
type WSFollower struct {
	Name      string `json:"name"`
	Proc      string `json:"proc"`
	Offset    int    `json:"offset"`
	AtMs      int    `json:"at_ms"`
	Mode      string `json:"mode"`                 // read | stall | disconnect
	After     int    `json:"after,omitempty"`      // stall / disconnect after this many lines
	StallMs   int    `json:"stall_ms,omitempty"`   // <0: never reads again
	BufBytes  int    `json:"buf_bytes,omitempty"`  // socket buffer per direction
}

// hijackWriter lets the real gorilla upgrader take over the simulated connection
type hijackWriter struct {
	conn   net.Conn
	brw    *bufio.ReadWriter
	header http.Header
	status int
	hij    bool
}

func (w *hijackWriter) Header() http.Header { return w.header }
func (w *hijackWriter) WriteHeader(code int) { w.status = code }
func (w *hijackWriter) Write(b []byte) (int, error) {
	if w.status == 0 {
		w.status = 200
	}
	return len(b), nil
}
func (w *hijackWriter) Hijack() (net.Conn, *bufio.ReadWriter, error) {
	w.hij = true
	return w.conn, w.brw, nil
}

// runWSFollower: the server side reads the upgrade request off the simulated connection and
// hands it to the real gin engine; the client side is gorilla's real client.
func (rc *runCtx) runWSFollower(f *WSFollower) {
	capacity := f.BufBytes
	if capacity <= 0 {
		capacity = 4096
	}
	if f.Mode == "lib" {
		rc.runWSLib(f, capacity)
		return
	}
	cl, sv := simnet.Pipe(capacity)
	simsync.GoNamed("ws-server:"+f.Name, func() {
		br := bufio.NewReader(sv)
		req, err := http.ReadRequest(br)
		if err != nil {
			simlog.Add(simlog.Event{Kind: "ws.srv.err", Subj: f.Name, A: err.Error()})
			return
		}
		w := &hijackWriter{conn: sv, brw: bufio.NewReadWriter(br, bufio.NewWriter(sv)), header: http.Header{}}
		rc.eng.ServeHTTP(w, req)
		simlog.Add(simlog.Event{Kind: "ws.srv.ret", Subj: f.Name, N: w.status})
	})
	url := fmt.Sprintf("ws://sim/process/logs/ws?name=%s&offset=%d&follow=true", f.Proc, f.Offset)
	simlog.Add(simlog.Event{Kind: "ws.dial", Subj: f.Name, A: f.Proc, N: f.Offset})
	u, _ := neturl.Parse(url)
	ws, resp, err := websocket.NewClient(cl, u, nil, 1024, 1024)
	if err != nil {
		code := 0
		if resp != nil {
			code = resp.StatusCode
		}
		simlog.Add(simlog.Event{Kind: "ws.dial.err", Subj: f.Name, A: err.Error(), N: code})
		return
	}
	simlog.Add(simlog.Event{Kind: "ws.open", Subj: f.Name})
	n := 0
	for {
		if f.Mode != "read" && n == f.After {
			if f.Mode == "disconnect" {
				simlog.Add(simlog.Event{Kind: "ws.disconnect", Subj: f.Name, N: n})
				_ = cl.Close()
				return
			}
			simlog.Add(simlog.Event{Kind: "ws.stall", Subj: f.Name, N: n})
			if f.StallMs < 0 {
				return // never reads again, keeps the connection open
			}
			simsync.Sleep(simsync.SiteHarness, time.Duration(f.StallMs)*time.Millisecond)
			n++ // resume
			continue
		}
		var msg api.LogMessage
		if err := ws.ReadJSON(&msg); err != nil {
			simlog.Add(simlog.Event{Kind: "ws.closed", Subj: f.Name, A: err.Error(), N: n})
			return
		}
		simlog.Add(simlog.Event{Kind: "ws.line", Subj: f.Name, A: msg.Message, B: msg.ProcessName, N: n})
		n++
	}
}

// runWSLib: the follower is the client library's own LogClient (what `process-compose process
// logs -f` uses). It dials through gorilla's default dialer, whose network dial is pointed at a
// fresh simulated connection served by the real gin engine.
func (rc *runCtx) runWSLib(f *WSFollower, capacity int) {
	websocket.DefaultDialer.Proxy = nil
	websocket.DefaultDialer.NetDialContext = func(ctx context.Context, _, _ string) (net.Conn, error) {
		cl, sv := simnet.Pipe(capacity)
		simsync.GoNamed("ws-server:lib", func() {
			br := bufio.NewReader(sv)
			req, err := http.ReadRequest(br)
			if err != nil {
				simlog.Add(simlog.Event{Kind: "ws.srv.err", Subj: "lib", A: err.Error()})
				return
			}
			w := &hijackWriter{conn: sv, brw: bufio.NewReadWriter(br, bufio.NewWriter(sv)), header: http.Header{}}
			rc.eng.ServeHTTP(w, req)
			simlog.Add(simlog.Event{Kind: "ws.srv.ret", Subj: "lib", N: w.status})
		})
		return cl, nil
	}
	simlog.Add(simlog.Event{Kind: "ws.dial", Subj: f.Name, A: f.Proc, N: f.Offset})
	lc := client.NewLogClient("sim", "")
	n := 0
	opened := false
	_, err := lc.ReadProcessLogs(f.Proc, f.Offset, true, func(msg api.LogMessage) {
		if !opened {
			opened = true
			simlog.Add(simlog.Event{Kind: "ws.open", Subj: f.Name})
		}
		simlog.Add(simlog.Event{Kind: "ws.line", Subj: f.Name, A: msg.Message, B: msg.ProcessName, N: n})
		n++
	})
	if err != nil {
		simlog.Add(simlog.Event{Kind: "ws.dial.err", Subj: f.Name, A: errStr(err)})
		return
	}
	if !opened {
		opened = true
		simlog.Add(simlog.Event{Kind: "ws.open", Subj: f.Name})
	}
}
