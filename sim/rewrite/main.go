// simrewrite instruments a scratch copy of process-compose (and of go-health) for the
// deterministic simulator. See /verif/DESIGN.md section 2.1 (R1-R7).
//
// Any construct it does not understand is a hard error (exit 2): never silently skipped.
package main

import (
	"bytes"
	"encoding/json"
	"flag"
	"fmt"
	"go/ast"
	"go/constant"
	"go/format"
	"go/token"
	"go/types"
	"os"
	"path/filepath"
	"sort"
	"strconv"
	"strings"

	"golang.org/x/tools/go/ast/astutil"
	"golang.org/x/tools/go/packages"
)

const rtSync = "verifrt/simsync"

type Site struct {
	ID   int    `json:"id"`
	File string `json:"file"`
	Line int    `json:"line"`
	Kind string `json:"kind"`
	Func string `json:"func"`
}

var (
	sites    []Site
	nextSite = 100
	failed   bool
)

func fail(format string, a ...any) {
	fmt.Fprintf(os.Stderr, "simrewrite: "+format+"\n", a...)
	failed = true
}

// full instrumentation (R1-R5) vs map-order only (R5)
type mode int

const (
	modeFull mode = iota
	modeMapOnly
	modeCommand
)

func main() {
	repo := flag.String("repo", "", "scratch copy of the repository (module root)")
	health := flag.String("health", "", "scratch copy of go-health (module root)")
	sitesOut := flag.String("sites", "", "write the site table here")
	flag.Parse()
	if *repo == "" {
		fmt.Fprintln(os.Stderr, "usage: simrewrite -repo DIR [-health DIR] [-sites FILE]")
		os.Exit(2)
	}
	repoPkgs := map[string]mode{
		"src/app": modeFull, "src/pclog": modeFull, "src/health": modeFull, "src/api": modeFull, "src/client": modeFull,
		"src/types": modeMapOnly, "src/loader": modeMapOnly, "src/templater": modeMapOnly, "src/admitter": modeMapOnly,
		"src/command": modeCommand,
		"src/cmd":     modeFull, // only project_runner.go (the binary's signal handling), see process()
	}
	var pats []string
	for p := range repoPkgs {
		pats = append(pats, "./"+p)
	}
	sort.Strings(pats)
	process(*repo, pats, func(pkgPath string) mode {
		for p, m := range repoPkgs {
			if strings.HasSuffix(pkgPath, "/"+p) {
				return m
			}
		}
		return -1
	})
	if *health != "" {
		process(*health, []string{"."}, func(string) mode { return modeFull })
	}
	if failed {
		os.Exit(2)
	}
	if *sitesOut != "" {
		b, _ := json.MarshalIndent(sites, "", " ")
		if err := os.WriteFile(*sitesOut, b, 0o644); err != nil {
			fmt.Fprintln(os.Stderr, err)
			os.Exit(2)
		}
	}
}

func process(dir string, pats []string, modeOf func(string) mode) {
	cfg := &packages.Config{
		Mode: packages.NeedName | packages.NeedFiles | packages.NeedSyntax | packages.NeedTypes | packages.NeedTypesInfo | packages.NeedImports | packages.NeedCompiledGoFiles,
		Dir:  dir,
		Env:  append(os.Environ(), "GOFLAGS=-mod=mod", "GOPROXY=off", "GOSUMDB=off"),
	}
	pkgs, err := packages.Load(cfg, pats...)
	if err != nil {
		fail("load %s: %v", dir, err)
		return
	}
	for _, p := range pkgs {
		for _, e := range p.Errors {
			fail("package %s: %v", p.PkgPath, e)
		}
	}
	if failed {
		return
	}
	sort.Slice(pkgs, func(i, j int) bool { return pkgs[i].PkgPath < pkgs[j].PkgPath })
	for _, p := range pkgs {
		m := modeOf(p.PkgPath)
		if m < 0 {
			fail("unexpected package %s", p.PkgPath)
			continue
		}
		for i, f := range p.Syntax {
			name := p.CompiledGoFiles[i]
			if strings.HasSuffix(name, "_test.go") {
				continue
			}
			if strings.HasSuffix(p.PkgPath, "/src/cmd") && filepath.Base(name) != "project_runner.go" {
				continue // the rest of the command-line front end is not run in simulation
			}
			rw := &rewriter{pkg: p, file: f, fname: name, rel: rel(dir, name), mode: m}
			rw.run()
			if rw.changed {
				var buf bytes.Buffer
				// drop comments that follow the package clause: the printer would misplace them
				var keep []*ast.CommentGroup
				for _, cg := range f.Comments {
					if cg.End() < f.Package {
						keep = append(keep, cg)
					}
				}
				f.Comments = keep
				if err := format.Node(&buf, p.Fset, f); err != nil {
					fail("print %s: %v", name, err)
					continue
				}
				if err := os.WriteFile(name, buf.Bytes(), 0o644); err != nil {
					fail("write %s: %v", name, err)
				}
			}
		}
	}
}

func rel(dir, name string) string {
	r, err := filepath.Rel(dir, name)
	if err != nil {
		return name
	}
	return r
}

type rewriter struct {
	pkg     *packages.Package
	file    *ast.File
	fname   string
	rel     string
	mode    mode
	changed bool
	needRT  bool
	curFunc string
	skip    map[ast.Node]bool
	tmp     int
}

func (r *rewriter) site(n ast.Node, kind string) ast.Expr {
	pos := r.pkg.Fset.Position(n.Pos())
	id := nextSite
	nextSite++
	sites = append(sites, Site{ID: id, File: r.rel, Line: pos.Line, Kind: kind, Func: r.curFunc})
	return &ast.BasicLit{Kind: token.INT, Value: strconv.Itoa(id)}
}

func (r *rewriter) rt(name string) ast.Expr {
	r.needRT = true
	return &ast.SelectorExpr{X: ast.NewIdent("simsync"), Sel: ast.NewIdent(name)}
}

func (r *rewriter) call(name string, args ...ast.Expr) *ast.CallExpr {
	return &ast.CallExpr{Fun: r.rt(name), Args: args}
}

func (r *rewriter) fresh(prefix string) *ast.Ident {
	r.tmp++
	return ast.NewIdent(fmt.Sprintf("_sim%s%d", prefix, r.tmp))
}

func (r *rewriter) typeOf(e ast.Expr) types.Type {
	if tv, ok := r.pkg.TypesInfo.Types[e]; ok {
		return tv.Type
	}
	return nil
}

func (r *rewriter) swapImport(from, to, name string) {
	for _, im := range r.file.Imports {
		p, _ := strconv.Unquote(im.Path.Value)
		if p == from {
			if im.Name != nil && im.Name.Name != name {
				fail("%s: import %q has alias %s; unsupported", r.rel, from, im.Name.Name)
				return
			}
			im.Path.Value = strconv.Quote(to)
			im.Name = ast.NewIdent(name)
			r.changed = true
		}
	}
}

// osProcessTypes: src/command sees the simulated os/exec, whose Cmd carries simulated
// Process / ProcessState values; a mention of the real types os.Process / os.ProcessState
// (a helper that takes the state as a parameter) is pointed at the facade's types.
func (r *rewriter) osProcessTypes() {
	need := false
	ast.Inspect(r.file, func(n ast.Node) bool {
		se, ok := n.(*ast.SelectorExpr)
		if !ok {
			return true
		}
		id, ok := se.X.(*ast.Ident)
		if !ok || id.Name != "os" || (se.Sel.Name != "ProcessState" && se.Sel.Name != "Process") {
			return true
		}
		if pn, ok := r.pkg.TypesInfo.Uses[id].(*types.PkgName); !ok || pn.Imported().Path() != "os" {
			return true
		}
		se.X = ast.NewIdent("exec")
		need = true
		return true
	})
	if !need {
		return
	}
	r.changed = true
	has := false
	for _, im := range r.file.Imports {
		if p, _ := strconv.Unquote(im.Path.Value); p == "verifrt/simos" {
			has = true
		}
	}
	if !has {
		astutil.AddNamedImport(r.pkg.Fset, r.file, "exec", "verifrt/simos")
	}
	if !astutil.UsesImport(r.file, "os") {
		astutil.DeleteImport(r.pkg.Fset, r.file, "os")
	}
}

func (r *rewriter) run() {
	switch r.mode {
	case modeCommand:
		r.swapImport("os/exec", "verifrt/simos", "exec")
		r.swapImport("syscall", "verifrt/simsys", "syscall")
		r.swapImport("github.com/creack/pty", "verifrt/simpty", "pty")
		r.osProcessTypes()
		return
	case modeMapOnly:
		r.swapImport("os/exec", "verifrt/simos", "exec")
	case modeFull:
		r.swapImport("os/exec", "verifrt/simos", "exec")
		r.swapImport("sync", rtSync, "sync")
		r.swapImport("os/signal", "verifrt/simsignal", "signal")
		if strings.HasSuffix(r.pkg.PkgPath, "/src/pclog") {
			r.swapImport("crypto/rand", "verifrt/simrand", "rand")
		}
	}
	r.skip = map[ast.Node]bool{}
	for _, d := range r.file.Decls {
		fd, ok := d.(*ast.FuncDecl)
		if !ok || fd.Body == nil {
			// package-level var initialisers with function literals
			if gd, ok := d.(*ast.GenDecl); ok {
				r.curFunc = "(package level)"
				r.rewriteNode(gd)
			}
			continue
		}
		r.curFunc = fd.Name.Name
		if fd.Recv != nil && len(fd.Recv.List) > 0 {
			r.curFunc = types.ExprString(fd.Recv.List[0].Type) + "." + fd.Name.Name
		}
		r.rewriteNode(fd.Body)
		if r.mode == modeFull {
			r.hooks(fd)
		}
	}
	if r.needRT {
		astutil.AddNamedImport(r.pkg.Fset, r.file, "simsync", rtSync)
		r.changed = true
	}
}

// hooks inserts the name-anchored observers (R7).
func (r *rewriter) hooks(fd *ast.FuncDecl) {
	if !strings.HasSuffix(r.pkg.PkgPath, "/src/app") {
		return
	}
	if fd.Name.Name == "onStateChange" && fd.Recv != nil && len(fd.Recv.List) == 1 && len(fd.Recv.List[0].Names) == 1 &&
		fd.Type.Params != nil && len(fd.Type.Params.List) == 1 && len(fd.Type.Params.List[0].Names) == 1 {
		recv := fd.Recv.List[0].Names[0].Name
		par := fd.Type.Params.List[0].Names[0].Name
		nameExpr := recv + ".procConf.ReplicaName"
		if r.pkg.Types.Scope().Lookup("Process") != nil {
			if named, ok := r.pkg.Types.Scope().Lookup("Process").Type().(*types.Named); ok {
				for i := 0; i < named.NumMethods(); i++ {
					if named.Method(i).Name() == "getName" {
						nameExpr = recv + ".getName()" // the locked accessor, if the tree has one
					}
				}
			}
		}
		// onStateChange runs with the per-process state lock held; the name stored in the
		// state object is guarded by that very lock, so reading it neither races nor adds a
		// scheduling point between the decision and the record of it
		if obj := r.pkg.Types.Scope().Lookup("Process"); obj != nil {
			if st, ok := obj.Type().Underlying().(*types.Struct); ok {
				for i := 0; i < st.NumFields(); i++ {
					if st.Field(i).Name() == "procState" {
						if pt, ok := st.Field(i).Type().(*types.Pointer); ok {
							if ps, ok := pt.Elem().Underlying().(*types.Struct); ok {
								for j := 0; j < ps.NumFields(); j++ {
									if ps.Field(j).Name() == "Name" {
										nameExpr = recv + ".procState.Name"
									}
								}
							}
						}
					}
				}
			}
		}
		src := fmt.Sprintf("simsync.Hook(%q, %s, %s)", "state", nameExpr, par)
		e, err := parseExpr(src)
		if err != nil {
			fail("hook: %v", err)
			return
		}
		fd.Body.List = append([]ast.Stmt{&ast.ExprStmt{X: e}}, fd.Body.List...)
		r.needRT = true
		hookStateInserted = true
	}
}

var hookStateInserted bool

func parseExpr(src string) (ast.Expr, error) {
	return parserParseExpr(src)
}

func (r *rewriter) rewriteNode(root ast.Node) {
	pre := func(c *astutil.Cursor) bool {
		switch n := c.Node().(type) {
		case *ast.SelectStmt:
			if r.mode != modeFull {
				return true
			}
			for _, cl := range n.Body.List {
				cc := cl.(*ast.CommClause)
				if cc.Comm == nil {
					continue
				}
				ast.Inspect(cc.Comm, func(x ast.Node) bool {
					switch y := x.(type) {
					case *ast.UnaryExpr:
						if y.Op == token.ARROW {
							r.skip[y] = true
						}
					case *ast.SendStmt:
						r.skip[y] = true
					case *ast.AssignStmt:
						r.skip[y] = true
					}
					return true
				})
			}
		case *ast.FuncLit:
			_ = n
		}
		return true
	}
	post := func(c *astutil.Cursor) bool {
		switch n := c.Node().(type) {
		case *ast.RangeStmt:
			t := r.typeOf(n.X)
			if t == nil {
				fail("%s: no type for range expression at %v", r.rel, r.pkg.Fset.Position(n.Pos()))
				return true
			}
			switch t.Underlying().(type) {
			case *types.Map:
				c.Replace(r.rangeMap(n))
			case *types.Chan:
				if r.mode == modeFull {
					c.Replace(r.rangeChan(n))
				}
			}
		case *ast.SelectStmt:
			if r.mode == modeFull {
				c.Replace(r.selectStmt(n))
			}
		case *ast.GoStmt:
			if r.mode == modeFull {
				c.Replace(r.goStmt(n))
			}
		case *ast.SendStmt:
			if r.mode == modeFull && !r.skip[n] {
				// simsync.SendTo(site, ch)(v)
				c.Replace(&ast.ExprStmt{X: &ast.CallExpr{Fun: r.call("SendTo", r.site(n, "send"), n.Chan), Args: []ast.Expr{n.Value}}})
				r.changed = true
			}
		case *ast.AssignStmt:
			if r.mode == modeFull && !r.skip[n] && len(n.Lhs) == 2 && len(n.Rhs) == 1 {
				if u, ok := unparen(n.Rhs[0]).(*ast.UnaryExpr); ok && u.Op == token.ARROW {
					n.Rhs[0] = r.call("Recv2", r.site(u, "recv"), u.X)
					r.skip[u] = true
					r.changed = true
				}
			}
		case *ast.ValueSpec:
			if r.mode == modeFull && len(n.Names) == 2 && len(n.Values) == 1 {
				if u, ok := unparen(n.Values[0]).(*ast.UnaryExpr); ok && u.Op == token.ARROW {
					n.Values[0] = r.call("Recv2", r.site(u, "recv"), u.X)
					r.skip[u] = true
					r.changed = true
				}
			}
		case *ast.UnaryExpr:
			if r.mode == modeFull && n.Op == token.ARROW && !r.skip[n] {
				// is the parent a 2-value assignment? handled in the AssignStmt case, which
				// runs after this one (post-order): so decide here by looking at the parent.
				if as, ok := c.Parent().(*ast.AssignStmt); ok && len(as.Lhs) == 2 && len(as.Rhs) == 1 {
					return true
				}
				if vs, ok := c.Parent().(*ast.ValueSpec); ok && len(vs.Names) == 2 && len(vs.Values) == 1 {
					return true
				}
				if _, ok := c.Parent().(*ast.ParenExpr); ok {
					// let the assignment cases see through parentheses only in the plain form
				}
				c.Replace(r.call("Recv1", r.site(n, "recv"), n.X))
				r.changed = true
			}
		case *ast.SelectorExpr:
			if r.mode == modeFull {
				if obj := r.pkg.TypesInfo.Uses[n.Sel]; obj != nil && obj.Pkg() != nil && obj.Pkg().Path() == "time" {
					switch obj.Name() {
					case "NewTimer", "AfterFunc":
						if _, ok := obj.(*types.Func); ok {
							c.Replace(r.rt(obj.Name()))
							r.changed = true
						}
					case "Timer":
						if _, ok := obj.(*types.TypeName); ok {
							c.Replace(r.rt("Timer"))
							r.changed = true
						}
					}
				}
			}
		case *ast.CallExpr:
			if r.mode == modeFull {
				if fn := r.callee(n); fn != nil && fn.Pkg() != nil {
					if fn.Pkg().Path() == "time" && fn.Name() == "Sleep" {
						n.Fun = r.rt("Sleep")
						n.Args = append([]ast.Expr{r.site(n, "sleep")}, n.Args...)
						r.changed = true
					}
				}
			}
		}
		return true
	}
	astutil.Apply(root, pre, post)
}

func unparen(e ast.Expr) ast.Expr {
	for {
		p, ok := e.(*ast.ParenExpr)
		if !ok {
			return e
		}
		e = p.X
	}
}

func (r *rewriter) callee(c *ast.CallExpr) *types.Func {
	var id *ast.Ident
	switch f := c.Fun.(type) {
	case *ast.Ident:
		id = f
	case *ast.SelectorExpr:
		id = f.Sel
	}
	if id == nil {
		return nil
	}
	if o, ok := r.pkg.TypesInfo.Uses[id].(*types.Func); ok {
		return o
	}
	return nil
}

// rangeMap: for k, v := range m {B}  =>
//
//	for _, _e := range simsync.MapEntries(site, m) { k, v, _ok := _e.Get(); if !_ok {continue}; B }
func (r *rewriter) rangeMap(n *ast.RangeStmt) ast.Stmt {
	r.changed = true
	e := r.fresh("e")
	ok := r.fresh("ok")
	var pre []ast.Stmt
	blank := func(x ast.Expr) bool {
		if x == nil {
			return true
		}
		id, isID := x.(*ast.Ident)
		return isID && id.Name == "_"
	}
	get := &ast.CallExpr{Fun: &ast.SelectorExpr{X: e, Sel: ast.NewIdent("Get")}}
	if n.Tok == token.DEFINE || (blank(n.Key) && blank(n.Value)) {
		k, v := ast.Expr(ast.NewIdent("_")), ast.Expr(ast.NewIdent("_"))
		if !blank(n.Key) {
			k = n.Key
		}
		if !blank(n.Value) {
			v = n.Value
		}
		pre = append(pre, &ast.AssignStmt{Lhs: []ast.Expr{k, v, ok}, Tok: token.DEFINE, Rhs: []ast.Expr{get}})
		pre = append(pre, &ast.IfStmt{Cond: &ast.UnaryExpr{Op: token.NOT, X: ok}, Body: &ast.BlockStmt{List: []ast.Stmt{&ast.BranchStmt{Tok: token.CONTINUE}}}})
	} else {
		kt, vt := r.fresh("k"), r.fresh("v")
		pre = append(pre, &ast.AssignStmt{Lhs: []ast.Expr{kt, vt, ok}, Tok: token.DEFINE, Rhs: []ast.Expr{get}})
		pre = append(pre, &ast.IfStmt{Cond: &ast.UnaryExpr{Op: token.NOT, X: ok}, Body: &ast.BlockStmt{List: []ast.Stmt{&ast.BranchStmt{Tok: token.CONTINUE}}}})
		as := &ast.AssignStmt{Tok: token.ASSIGN}
		if !blank(n.Key) {
			as.Lhs = append(as.Lhs, n.Key)
			as.Rhs = append(as.Rhs, kt)
		} else {
			as.Lhs = append(as.Lhs, ast.NewIdent("_"))
			as.Rhs = append(as.Rhs, kt)
		}
		if !blank(n.Value) {
			as.Lhs = append(as.Lhs, n.Value)
			as.Rhs = append(as.Rhs, vt)
		} else {
			as.Lhs = append(as.Lhs, ast.NewIdent("_"))
			as.Rhs = append(as.Rhs, vt)
		}
		pre = append(pre, as)
	}
	body := &ast.BlockStmt{List: append(pre, n.Body.List...)}
	return &ast.RangeStmt{
		Key: ast.NewIdent("_"), Value: e, Tok: token.DEFINE,
		X:    r.call("MapEntries", r.site(n, "maprange"), n.X),
		Body: body,
	}
}

// rangeChan: for v := range ch {B} => for _ch := ch; ; { v, _ok := simsync.Recv2(site, _ch); if !_ok {break}; B }
func (r *rewriter) rangeChan(n *ast.RangeStmt) ast.Stmt {
	r.changed = true
	ch := r.fresh("ch")
	ok := r.fresh("ok")
	var lhs ast.Expr = ast.NewIdent("_")
	tok := token.DEFINE
	if n.Key != nil {
		lhs = n.Key
		if n.Tok == token.ASSIGN {
			// v, _ok = ... needs _ok declared: use a temp
			tmp := r.fresh("v")
			body := []ast.Stmt{
				&ast.AssignStmt{Lhs: []ast.Expr{tmp, ok}, Tok: token.DEFINE, Rhs: []ast.Expr{r.call("Recv2", r.site(n, "rangechan"), ch)}},
				&ast.IfStmt{Cond: &ast.UnaryExpr{Op: token.NOT, X: ok}, Body: &ast.BlockStmt{List: []ast.Stmt{&ast.BranchStmt{Tok: token.BREAK}}}},
				&ast.AssignStmt{Lhs: []ast.Expr{n.Key}, Tok: token.ASSIGN, Rhs: []ast.Expr{tmp}},
			}
			return &ast.ForStmt{
				Init: &ast.AssignStmt{Lhs: []ast.Expr{ch}, Tok: token.DEFINE, Rhs: []ast.Expr{n.X}},
				Body: &ast.BlockStmt{List: append(body, n.Body.List...)},
			}
		}
	}
	body := []ast.Stmt{
		&ast.AssignStmt{Lhs: []ast.Expr{lhs, ok}, Tok: tok, Rhs: []ast.Expr{r.call("Recv2", r.site(n, "rangechan"), ch)}},
		&ast.IfStmt{Cond: &ast.UnaryExpr{Op: token.NOT, X: ok}, Body: &ast.BlockStmt{List: []ast.Stmt{&ast.BranchStmt{Tok: token.BREAK}}}},
	}
	return &ast.ForStmt{
		Init: &ast.AssignStmt{Lhs: []ast.Expr{ch}, Tok: token.DEFINE, Rhs: []ast.Expr{n.X}},
		Body: &ast.BlockStmt{List: append(body, n.Body.List...)},
	}
}

// goStmt: go f(a,b) => { _f, _a0, _a1 := f, a, b; simsync.Go(site, func(){ _f(_a0,_a1) }) }
func (r *rewriter) goStmt(n *ast.GoStmt) ast.Stmt {
	r.changed = true
	call := n.Call
	var lhs, rhs []ast.Expr
	fn := r.fresh("f")
	lhs = append(lhs, fn)
	rhs = append(rhs, call.Fun)
	newCall := &ast.CallExpr{Fun: fn, Ellipsis: call.Ellipsis}
	for _, a := range call.Args {
		tv, ok := r.pkg.TypesInfo.Types[a]
		if (ok && (tv.Value != nil || tv.IsNil())) || isConstLike(a, tv.Value) {
			newCall.Args = append(newCall.Args, a)
			continue
		}
		t := r.fresh("a")
		lhs = append(lhs, t)
		rhs = append(rhs, a)
		newCall.Args = append(newCall.Args, t)
	}
	if call.Ellipsis != token.NoPos {
		newCall.Ellipsis = 1
	}
	return &ast.BlockStmt{List: []ast.Stmt{
		&ast.AssignStmt{Lhs: lhs, Tok: token.DEFINE, Rhs: rhs},
		&ast.ExprStmt{X: r.call("Go", r.site(n, "go"), &ast.FuncLit{
			Type: &ast.FuncType{Params: &ast.FieldList{}},
			Body: &ast.BlockStmt{List: []ast.Stmt{&ast.ExprStmt{X: newCall}}},
		})},
	}}
}

func isConstLike(e ast.Expr, v constant.Value) bool {
	_, ok := e.(*ast.BasicLit)
	return ok
}

// selectStmt: rewritten to a switch over simsync.Select with typed case objects.
func (r *rewriter) selectStmt(n *ast.SelectStmt) ast.Stmt {
	r.changed = true
	var lhs, rhs []ast.Expr
	var cases []ast.Stmt
	args := []ast.Expr{r.site(n, "select"), ast.NewIdent("false")}
	idx := 0
	for _, cl := range n.Body.List {
		cc := cl.(*ast.CommClause)
		if cc.Comm == nil {
			args[1] = ast.NewIdent("true")
			cases = append(cases, &ast.CaseClause{List: []ast.Expr{&ast.UnaryExpr{Op: token.SUB, X: &ast.BasicLit{Kind: token.INT, Value: "1"}}}, Body: cc.Body})
			continue
		}
		c := r.fresh("c")
		var pre []ast.Stmt
		switch s := cc.Comm.(type) {
		case *ast.ExprStmt:
			u, ok := unparen(s.X).(*ast.UnaryExpr)
			if !ok || u.Op != token.ARROW {
				fail("%s: unsupported select case at %v", r.rel, r.pkg.Fset.Position(s.Pos()))
				continue
			}
			lhs = append(lhs, c)
			rhs = append(rhs, r.call("RecvCase", u.X))
		case *ast.AssignStmt:
			u, ok := unparen(s.Rhs[0]).(*ast.UnaryExpr)
			if !ok || u.Op != token.ARROW || len(s.Rhs) != 1 {
				fail("%s: unsupported select case at %v", r.rel, r.pkg.Fset.Position(s.Pos()))
				continue
			}
			lhs = append(lhs, c)
			rhs = append(rhs, r.call("RecvCase", u.X))
			if len(s.Lhs) == 1 {
				pre = append(pre, &ast.AssignStmt{Lhs: s.Lhs, Tok: s.Tok, Rhs: []ast.Expr{&ast.CallExpr{Fun: &ast.SelectorExpr{X: c, Sel: ast.NewIdent("Val")}}}})
			} else {
				pre = append(pre, &ast.AssignStmt{Lhs: s.Lhs, Tok: s.Tok, Rhs: []ast.Expr{&ast.CallExpr{Fun: &ast.SelectorExpr{X: c, Sel: ast.NewIdent("Get")}}}})
			}
			// silence "declared and not used" for := forms whose variables the body ignores
			if s.Tok == token.DEFINE {
				for _, l := range s.Lhs {
					if id, ok := l.(*ast.Ident); ok && id.Name != "_" {
						pre = append(pre, &ast.AssignStmt{Lhs: []ast.Expr{ast.NewIdent("_")}, Tok: token.ASSIGN, Rhs: []ast.Expr{ast.NewIdent(id.Name)}})
					}
				}
			}
		case *ast.SendStmt:
			lhs = append(lhs, c)
			rhs = append(rhs, &ast.CallExpr{Fun: r.call("SendCaseTo", s.Chan), Args: []ast.Expr{s.Value}})
		default:
			fail("%s: unsupported select comm at %v", r.rel, r.pkg.Fset.Position(cc.Pos()))
			continue
		}
		args = append(args, c)
		cases = append(cases, &ast.CaseClause{List: []ast.Expr{&ast.BasicLit{Kind: token.INT, Value: strconv.Itoa(idx)}}, Body: append(pre, cc.Body...)})
		idx++
	}
	// unreachable, but keeps a select whose clauses all return a terminating statement
	cases = append(cases, &ast.CaseClause{Body: []ast.Stmt{&ast.ExprStmt{X: &ast.CallExpr{Fun: ast.NewIdent("panic"),
		Args: []ast.Expr{&ast.BasicLit{Kind: token.STRING, Value: strconv.Quote("simsync.Select: no such case")}}}}}})
	sw := &ast.SwitchStmt{Tag: r.call("Select", args...), Body: &ast.BlockStmt{List: cases}}
	if len(lhs) > 0 {
		sw.Init = &ast.AssignStmt{Lhs: lhs, Tok: token.DEFINE, Rhs: rhs}
	}
	return sw
}
