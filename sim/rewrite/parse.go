package main

import (
	"go/ast"
	"go/parser"
)

func parserParseExpr(src string) (ast.Expr, error) {
	e, err := parser.ParseExpr(src)
	if err != nil {
		return nil, err
	}
	// strip positions so the printer does not try to honour them
	ast.Inspect(e, func(n ast.Node) bool {
		switch x := n.(type) {
		case *ast.Ident:
			x.NamePos = 0
		case *ast.BasicLit:
			x.ValuePos = 0
		case *ast.CallExpr:
			x.Lparen, x.Rparen = 0, 0
		}
		return true
	})
	return e, nil
}
