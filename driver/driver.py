#!/usr/bin/env python3
"""Driver for the deterministic-simulation checks (DESIGN.md section 5).

  check <ID> quick|thorough      run the property's check on /repo's current working tree
  check <ID> --replay <file>     re-execute a replay file

Exit 0: property held on everything explored (KNOWN-FINDING lines allowed);
exit 1: at least one `VIOLATION property=<id> replay=<path>` line;
exit 2: harness trouble (build, instrumentation, nondeterminism, wedged worker).
"""
import hashlib
import json
import os
import re
import shutil
import subprocess
import sys
import tempfile
import time

VERIF = os.path.dirname(os.path.dirname(os.path.abspath(__file__)))
REPO = os.environ.get("VERIF_REPO", "/repo")
NPROC = int(os.environ.get("VERIF_WORKERS", str(min(16, os.cpu_count() or 4))))

# runs per tier: (quick, thorough); sweep_max = injection points per sweep scenario
TIERS = {
    "default": {"quick": 3000, "thorough": 400000, "sweep_max": (40, 400), "budget": (50, 780)},
    "C03": {"quick": 600, "thorough": 60000, "sweep_max": (40, 600), "budget": (50, 780)},
    "C02": {"quick": 800, "thorough": 80000, "sweep_max": (40, 600), "budget": (50, 780)},
}

LEVELS = {}
RACE_PROPS = {"C20"}


def die(msg, code=2):
    print("HARNESS-TROUBLE: " + msg, flush=True)
    sys.exit(code)


def tree_hash():
    h = hashlib.sha256()
    roots = [os.path.join(REPO, "src"), os.path.join(VERIF, "sim")]
    files = [os.path.join(REPO, "go.mod"), os.path.join(REPO, "go.sum"), os.path.join(VERIF, "scripts", "build.sh")]
    for root in roots:
        for d, dn, fn in os.walk(root):
            dn.sort()
            for f in sorted(fn):
                if f.endswith(".go") or f in ("go.mod", "go.sum"):
                    files.append(os.path.join(d, f))
    for f in files:
        try:
            with open(f, "rb") as fh:
                h.update(f.encode())
                h.update(b"\0")
                h.update(fh.read())
        except OSError:
            pass
    return h.hexdigest()[:24]


def repo_rev():
    try:
        rev = subprocess.run(["git", "-C", REPO, "rev-parse", "--short", "HEAD"], capture_output=True, text=True).stdout.strip()
        dirty = subprocess.run(["git", "-C", REPO, "status", "--porcelain"], capture_output=True, text=True).stdout.strip()
        return rev + ("+dirty" if dirty else "")
    except Exception:
        return "unknown"


def build(race):
    """Returns the path of the harness binary for the current tree (content-addressed cache)."""
    th = tree_hash() + ("-race" if race else "")
    cdir = os.path.join(VERIF, ".cache", "bin", th)
    binp = os.path.join(cdir, "sim.test")
    if os.path.exists(binp):
        try:
            os.utime(cdir)  # in use: keeps it out of the pruning below
        except OSError:
            pass
        return binp, th
    scratch = tempfile.mkdtemp(prefix="verif-build-", dir=os.environ.get("VERIF_SCRATCH", "/var/tmp"))
    try:
        t0 = time.time()
        p = subprocess.run([os.path.join(VERIF, "scripts", "build.sh"), scratch] + (["race"] if race else []),
                           capture_output=True, text=True)
        if p.returncode != 0:
            sys.stdout.write(p.stdout[-4000:])
            sys.stdout.write(p.stderr[-6000:])
            die("build pipeline failed")
        os.makedirs(cdir, exist_ok=True)
        # published by renaming: two checks that build the same tree at the same time must not
        # write into a binary the other one is already running
        for name in ("sites.json", "sim.test"):
            tmpn = os.path.join(cdir, ".%s.%d" % (name, os.getpid()))
            shutil.copy(os.path.join(scratch, name), tmpn)
            os.replace(tmpn, os.path.join(cdir, name))
        print("built harness for tree %s in %.1fs" % (th, time.time() - t0), flush=True)
        # keep the cache small: drop all but the 6 newest binaries - but none that was built or
        # used in the last 20 minutes (a check running beside this one may be executing it)
        root = os.path.join(VERIF, ".cache", "bin")
        ents = sorted((os.path.getmtime(os.path.join(root, e)), e) for e in os.listdir(root))
        for mt, e in ents[:-6]:
            if time.time() - mt > 1200:
                shutil.rmtree(os.path.join(root, e), ignore_errors=True)
        # ... and the Go build cache below a few GB (every distinct tree adds to it): when it
        # has grown past the limit its least recently used half goes
        gob = os.path.join(VERIF, ".cache", "go-build")
        try:
            files = []
            for d, _, fs in os.walk(gob):
                for f in fs:
                    fp = os.path.join(d, f)
                    st = os.stat(fp)
                    files.append((max(st.st_atime, st.st_mtime), st.st_size, fp))
            total = sum(f[1] for f in files)
            if total > 4 << 30:
                files.sort()
                drop = 0
                for _, sz, fp in files:
                    if drop > total // 2:
                        break
                    if os.path.basename(fp) in ("README", "trim.txt"):
                        continue
                    os.remove(fp)
                    drop += sz
        except OSError:
            pass
    finally:
        shutil.rmtree(scratch, ignore_errors=True)
    return binp, th


def load_known():
    p = os.path.join(VERIF, "known_findings.json")
    if not os.path.exists(p):
        return {"findings": [], "fixed": []}
    with open(p) as f:
        return json.load(f)


def match_known(known, v):
    for k in known.get("findings", []):
        if k["property"] == v["prop"] and k["class"] == v["class"] and re.fullmatch(k.get("disc", ".*"), v.get("disc", "")):
            return k
    return None


def run_workers(binp, prop, tier, seed, total, sweep_max, budget_s, tmp, race=False):
    # Work is cut into chunks, each run by a fresh worker process (runs that end in a detected
    # hang leak their goroutines; under the race detector memory grows quickly): at most NPROC
    # processes at a time.
    chunk = int(os.environ.get("VERIF_CHUNK", "600" if race else "4000"))
    chunk = max(1, min(chunk, (total + NPROC - 1) // NPROC))
    tasks = []
    frm = 0
    while frm < total:
        cnt = min(chunk, total - frm)
        tasks.append((len(tasks), frm, cnt))
        frm += cnt
    env0 = dict(os.environ)
    # src/cmd (linked in for the binary's signal handling) looks for its settings directory when it is initialised
    os.makedirs(os.path.join(tmp, "xdg", "process-compose"), exist_ok=True)
    env0["XDG_CONFIG_HOME"] = os.path.join(tmp, "xdg")
    env0.update({"VERIF_PROP": prop, "VERIF_TIER": tier, "VERIF_SEED": str(seed), "VERIF_SWEEP_MAX": str(sweep_max),
                 "VERIF_REPLAY_DIR": os.path.join(tmp, "replays"),
                 "VERIF_TMP": tmp, "VERIF_TREE": repo_rev(), "GORACE": "halt_on_error=0"})
    t_end = time.time() + budget_s
    deadline = t_end + 180
    running = []
    outs = []
    pending = list(tasks)
    spans = {w: (frm, cnt) for (w, frm, cnt) in tasks}

    def reap(block):
        for item in list(running):
            p, out, logf, w = item
            if block:
                try:
                    p.wait(timeout=max(1, deadline - time.time()))
                except subprocess.TimeoutExpired:
                    p.kill()
                    die("worker %d wedged (wall-clock watchdog)" % w)
            elif p.poll() is None:
                continue
            running.remove(item)
            logf.close()
            if not os.path.exists(out):
                tail = open(os.path.join(tmp, "w%d.log" % w)).read()[-3000:]
                print(tail)
                die("worker %d produced no result (exit %s)" % (w, p.returncode))
            with open(out) as f:
                o = json.load(f)
            o["_log"] = os.path.join(tmp, "w%d.log" % w)
            outs.append(o)
            frm, cnt = spans[w]
            nxt = o.get("next_idx", frm + cnt)
            if frm < nxt < frm + cnt:
                # the worker retired early (memory): a fresh process does the rest
                w2 = len(spans)
                spans[w2] = (nxt, frm + cnt - nxt)
                pending.insert(0, (w2, nxt, frm + cnt - nxt))
            if block:
                return

    while pending or running:
        while pending and len(running) < NPROC:
            w, frm, cnt = pending.pop(0)
            left = int(t_end - time.time())
            if left <= 0:
                pending = []
                break
            env = dict(env0)
            out = os.path.join(tmp, "w%d.json" % w)
            env.update({"VERIF_FROM": str(frm), "VERIF_COUNT": str(cnt), "VERIF_OUT": out, "VERIF_BUDGET_S": str(left),
                        "GOMAXPROCS": str([1, 2, 4, 16][w % 4])})
            logf = open(os.path.join(tmp, "w%d.log" % w), "w")
            p = subprocess.Popen([binp, "-test.run", "^TestWorker$", "-test.timeout", "0"], env=env, stdout=logf, stderr=subprocess.STDOUT, cwd=tmp)
            running.append((p, out, logf, w))
        if running:
            reap(False)
            if len(running) >= NPROC or not pending:
                time.sleep(0.05)
    return outs


SUT_PREFIXES = ("github.com/f1bonacc1/process-compose/", "github.com/InVisionApp/go-health")
HARNESS_PREFIXES = ("verifsim.", "verifrt/", "verifsim/")


def parse_race_reports(text):
    """Splits a worker log into runs (RACE-RUN-BEGIN/END markers) and returns, per run, the
    signatures of the race reports in which both accesses are in code of the system under
    test. A signature is the sorted pair '<kind> <innermost SUT function>'."""
    runs = []
    cur = None
    noise = 0
    blocks = re.split(r"^==================$", text, flags=re.M)
    for blk in blocks:
        for m in re.finditer(r"RACE-RUN-(BEGIN|END) idx=(\d+) seed=(\d+)", blk):
            if m.group(1) == "BEGIN":
                cur = {"idx": int(m.group(2)), "seed": int(m.group(3)), "sigs": []}
                runs.append(cur)
        if "WARNING: DATA RACE" not in blk:
            continue
        accs = []
        for part in re.split(r"\n\s*\n", blk):
            head = part.strip().split("\n")[0] if part.strip() else ""
            mh = re.match(r"(?:WARNING: DATA RACE\n)?\s*(Read|Write|Previous read|Previous write|Atomic read|Atomic write|Previous atomic read|Previous atomic write) at ", part.strip())
            if not mh:
                continue
            kind = mh.group(1).lower().replace("previous ", "").replace("atomic ", "")
            frames = re.findall(r"^  (\S+?)\(\)\s*$", part, flags=re.M)
            owner = None
            for fr in frames:
                if fr.startswith(SUT_PREFIXES):
                    owner = ("sut", fr)
                    break
                if fr.startswith(HARNESS_PREFIXES):
                    owner = ("harness", fr)
                    break
            if owner is None:
                owner = ("other", frames[0] if frames else "?")
            accs.append((kind, owner))
        if len(accs) < 2:
            continue
        a, b = accs[0], accs[1]
        if a[1][0] == "sut" and b[1][0] == "sut":
            def short(fr):
                return fr.replace("github.com/f1bonacc1/process-compose/src/", "").replace("github.com/InVisionApp/go-health/v2", "go-health")
            sig = " | ".join(sorted([a[0] + " " + short(a[1][1]), b[0] + " " + short(b[1][1])]))
            if cur is not None:
                cur["sigs"].append(sig)
        else:
            noise += 1
    return runs, noise


def det_crosscheck(binp, prop, tier, seed, sweep_max, tmp, n):
    """Re-run the first n indices in two fresh processes with different GOMAXPROCS and compare
    the per-index trace hashes."""
    res = []
    for gmp in ("1", "16"):
        env = dict(os.environ)
        out = os.path.join(tmp, "det%s.json" % gmp)
        env.update({"VERIF_PROP": prop, "VERIF_TIER": tier, "VERIF_SEED": str(seed), "VERIF_SWEEP_MAX": "3",
                    "VERIF_FROM": "0", "VERIF_COUNT": str(n), "VERIF_OUT": out, "VERIF_DET_EVERY": "0", "VERIF_IDX_HASHES": "1",
                    "VERIF_TMP": tmp, "GOMAXPROCS": gmp, "VERIF_BUDGET_S": "120"})
        p = subprocess.run([binp, "-test.run", "^TestWorker$", "-test.timeout", "0"], env=env, capture_output=True, text=True, cwd=tmp)
        if not os.path.exists(out):
            print(p.stdout[-2000:])
            die("determinism cross-check worker failed")
        with open(out) as f:
            res.append(json.load(f).get("idx_hashes", {}))
    a, b = res
    bad = [k for k in a if a.get(k) != b.get(k)]
    return len(a), bad


def main():
    if len(sys.argv) < 3:
        die("usage: check <ID> quick|thorough | check <ID> --replay <file>")
    prop = sys.argv[1]
    manifest = json.load(open(os.path.join(VERIF, "MANIFEST.json")))
    level = "exploration"
    for c in manifest.get("checks", []):
        if c["property_id"] == prop:
            level = c["level_claimed"]["category"]
    race = prop in RACE_PROPS
    if sys.argv[2] == "--replay":
        return replay(prop, sys.argv[3], race)
    tier = sys.argv[2]
    if tier not in ("quick", "thorough"):
        die("tier must be quick or thorough")
    tier = os.environ.get("VERIF_TIER", tier) if os.environ.get("VERIF_TIER") in ("quick", "thorough") else tier
    seed = int(os.environ.get("VERIF_SEED", "20260930" if tier == "quick" else "7"))
    t0 = time.time()
    binp, th = build(race)
    cfg = dict(TIERS["default"])
    cfg.update(TIERS.get(prop, {}))
    total = int(os.environ.get("VERIF_RUNS", cfg[tier]))
    sweep_max = cfg["sweep_max"][0 if tier == "quick" else 1]
    budget = int(os.environ.get("VERIF_BUDGET", cfg["budget"][0 if tier == "quick" else 1]))
    tmp = tempfile.mkdtemp(prefix="verif-run-", dir=os.environ.get("VERIF_SCRATCH", "/var/tmp"))
    rc = 0
    try:
        outs = run_workers(binp, prop, tier, seed, total, sweep_max, budget, tmp, race)
        ndet, bad = det_crosscheck(binp, prop, tier, seed, sweep_max, tmp, 40 if tier == "quick" else 600)
        trouble = [t for o in outs for t in o.get("trouble") or []]
        if bad:
            trouble.append("cross-process NONDETERMINISM at indices %s" % bad[:10])
        runs = sum(o["runs"] for o in outs)
        hashes = set(h for o in outs for h in (o.get("hashes") or []))
        stats = {}
        for o in outs:
            for k, v in (o.get("stats") or {}).items():
                stats[k] = stats.get(k, 0) + v
        cross = {}
        for o in outs:
            for k, v in (o.get("cross_obs") or {}).items():
                cross[k] = cross.get(k, 0) + v
        sim_ms = sum(o.get("sim_ms", 0) for o in outs)
        det_checked = sum(o.get("det_checked", 0) for o in outs) + ndet
        samples = [s for o in outs for s in (o.get("samples") or [])][:3]
        known = load_known()
        viols, known_hits = [], {}
        seen = set()
        race_noise = 0
        race_sigs = {}
        if race:
            for o in outs:
                runs_, noise = parse_race_reports(open(o["_log"], errors="replace").read())
                race_noise += noise
                for r_ in runs_:
                    for sig in r_["sigs"]:
                        race_sigs.setdefault(sig, {"count": 0, "seed": r_["seed"], "idx": r_["idx"]})
                        race_sigs[sig]["count"] += 1
            for sig, info in sorted(race_sigs.items()):
                rp = os.path.join(tmp, "replays", "race", "%s-%d.json" % (prop, info["seed"]))
                if outs[0].get("violations") is None:
                    outs[0]["violations"] = []
                outs[0]["violations"].append({"prop": prop, "class": "data-race", "disc": sig, "seed": info["seed"], "idx": info["idx"],
                    "others": info["count"] - 1, "replay": rp if os.path.exists(rp) else "",
                    "msg": "the Go race detector reported unsynchronised conflicting accesses: " + sig})
            stats["race_reports_sut"] = sum(i["count"] for i in race_sigs.values())
            stats["race_reports_harness_noise"] = race_noise
            stats["race_distinct_signatures"] = len(race_sigs)
        for o in outs:
            for v in o.get("violations") or []:
                key = (v["prop"], v["class"], v.get("disc", ""))
                k = match_known(known, v)
                if k is not None:
                    kk = (k["property"], k["class"], k.get("disc", ""))
                    known_hits.setdefault(kk, [k, 0])
                    known_hits[kk][1] += 1 + v.get("others", 0)
                    continue
                if key in seen:
                    continue
                seen.add(key)
                viols.append(v)
        # every listed finding of this property is announced, whether or not this run met it
        for k in known.get("findings", []):
            if k["property"] != prop:
                continue
            n = sum(c for (kk, c) in known_hits.values() if kk is k)
            print("KNOWN-FINDING: property=%s %s [class=%s disc=%s] (seen %d times in this run)" % (k["property"], k["what"], k["class"], k.get("disc", ""), n))
        os.makedirs(os.path.join(VERIF, "replays"), exist_ok=True)
        for v in viols:
            dst = ""
            if v.get("replay") and os.path.exists(v["replay"]):
                dst = os.path.join(VERIF, "replays", os.path.basename(v["replay"]))
                shutil.copy(v["replay"], dst)
                if v["class"] == "data-race":
                    rp = json.load(open(dst))
                    rp["expect"]["class"], rp["expect"]["discriminator"], rp["expect"]["message"] = "data-race", v["disc"], v["msg"]
                    dst = os.path.join(VERIF, "replays", "%s-race-%s.json" % (prop, hashlib.sha1(v["disc"].encode()).hexdigest()[:10]))
                    json.dump(rp, open(dst, "w"), indent=1)
            print("VIOLATION property=%s replay=%s" % (prop, dst))
            print("  class=%s disc=%s seed=%s (+%d more runs): %s" % (v["class"], v.get("disc", ""), v["seed"], v.get("others", 0), v["msg"]))
            rc = 1
        wall = time.time() - t0
        ev = {
            "property_id": prop, "tier": tier, "seed": seed, "level": level,
            "coverage": {
                "evaluations": runs,
                "distinct_nontrivial": len(hashes),
                "rule": (outs[0].get("rule") if outs else "") or "distinct trace hashes among non-trivial simulated runs",
                "samples": samples or [{"note": "no violation-free sample captured"}],
                "simulated_runs": runs,
                "runs_per_hour": int(runs / max(wall, 0.001) * 3600),
                "seeds_per_hour": int(total / max(wall, 0.001) * 3600),
                "simulated_seconds_covered": sim_ms / 1000.0,
                "faults_fired": {k: v for k, v in stats.items() if re.match(r"F\d+_", k) or k in ("signals_sent", "sigkill_deaths")},
                "schedule": {k: stats.get(k, 0) for k in ("steps", "decisions", "preemptions", "contended_locks", "stable_points", "tasks")},
                "reach": {k: v for k, v in stats.items() if k.startswith(("status_", "api_", "arm_", "strategy_", "probe_", "sweep_", "reach_"))},
                "other_counters": {k: v for k, v in stats.items() if not re.match(r"F\d+_", k) and not k.startswith(("status_", "api_", "arm_", "strategy_", "probe_", "sweep_", "reach_"))},
                "determinism_selftest": {"runs_executed_twice": det_checked, "diverged": len(bad) + sum(o.get("det_diverged", 0) for o in outs), "cross_process_gomaxprocs": [1, 16]},
                "known_findings_seen": [{"class": k["class"], "disc": k.get("disc", ""), "count": n} for (k, n) in known_hits.values()],
                "cross_property_observations": cross,
                "real_vs_stub": REAL_VS_STUB,
                "tree": th, "repo": repo_rev(), "workers": NPROC,
            },
            "assumptions": ASSUMPTIONS,
            "wall_s": round(wall, 2),
            "violations": len(viols),
        }
        os.makedirs(os.path.join(VERIF, "evidence"), exist_ok=True)
        with open(os.path.join(VERIF, "evidence", prop + ".json"), "w") as f:
            json.dump(ev, f, indent=1)
        print("property=%s tier=%s runs=%d distinct_nontrivial=%d violations=%d known=%d wall=%.1fs" % (prop, tier, runs, len(hashes), len(viols), len(known_hits), wall))
        if trouble:
            for t in trouble[:10]:
                print("TROUBLE: " + t[:1500])
            if rc != 1:
                die("%d trouble reports" % len(trouble))
            # a violation was found and replays: it is reported (exit 1); the trouble - e.g. a
            # run that is not deterministic on this tree - is shown above and does not hide it
            print("NOTE: %d trouble reports beside the violation(s) above" % len(trouble))
    finally:
        shutil.rmtree(tmp, ignore_errors=True)
    sys.exit(rc)


def replay(prop, path, race):
    binp, th = build(race)
    tmp = tempfile.mkdtemp(prefix="verif-replay-", dir=os.environ.get("VERIF_SCRATCH", "/var/tmp"))
    try:
        env = dict(os.environ)
        os.makedirs(os.path.join(tmp, "xdg", "process-compose"), exist_ok=True)
        env.update({"VERIF_REPLAY": os.path.abspath(path), "VERIF_TMP": tmp, "XDG_CONFIG_HOME": os.path.join(tmp, "xdg")})
        p = subprocess.run([binp, "-test.run", "^TestReplay$", "-test.timeout", "0"], env=env, capture_output=True, text=True, cwd=tmp)
        out = p.stdout + p.stderr
        rp = json.load(open(path))
        if rp.get("expect", {}).get("class") == "data-race":
            runs_, _ = parse_race_reports(out)
            sigs = set(sg for r_ in runs_ for sg in r_["sigs"])
            for sg in sorted(sigs):
                print("REPLAY-RACE " + sg)
            print(re.sub(r"==================.*?==================", "", out, flags=re.S)[-1500:])
            if rp["expect"].get("discriminator") in sigs:
                print("VIOLATION property=%s replay=%s" % (prop, path))
                sys.exit(1)
            print("race signature not reproduced")
            sys.exit(0)
        sys.stdout.write(out)
        m = re.search(r"REPLAY-RESULT (\S+)(.*)", out)
        if not m:
            die("replay produced no result")
        if m.group(1) == "reproduced":
            rp = json.load(open(path))
            same_tree = rp.get("tree") == repo_rev()
            if same_tree and "hash_match=false" in m.group(2):
                die("replay diverged on the tree it was recorded on: the simulator is not deterministic")
            print("VIOLATION property=%s replay=%s" % (prop, path))
            sys.exit(1)
        sys.exit(0)
    finally:
        shutil.rmtree(tmp, ignore_errors=True)


REAL_VS_STUB = {
    "real (instrumented by simrewrite only)": ["src/app", "src/pclog", "src/health", "go-health v2.1.4", "src/types", "src/loader", "src/templater", "src/admitter",
                                               "src/api (router, handlers, websocket handler; gin and gorilla/websocket run unmodified)", "src/client (REST calls over an in-process transport)",
                                               "src/command (down to exec.Cmd / kill / getpgid)", "src/cmd/project_runner.go (runHeadless: the binary's signal handler + Run)"],
    "simulated": ["OS kernel: process table, process groups, signals, pipes, pids (verifrt/simos)", "clock/timers (testing/synctest fake clock)", "goroutine scheduling (verifrt/simsync)",
                  "map iteration order (PRNG-ordered)", "signals sent to the binary (verifrt/simsignal instead of os/signal)", "websocket connection (verifrt/simnet: bounded in-memory duplex connection)"],
    "stubbed / not executed": ["TCP/UDS listener and net/http server loop (requests are served by direct ServeHTTP)", "src/tui", "the rest of src/cmd (cobra commands, flags)", "PTY processes, elevated processes",
                               "log rotation", "HTTP probe transport (http probes are loaded and validated, never run)", "the bundled client's websocket log reader (gorilla's client is used directly)"],
}
ASSUMPTIONS = [
    "the simulated kernel (verifrt/simos) models Linux process groups, signals and pipes faithfully enough for the property",
    "interleavings are explored at the granularity of sync/channel/timer operations (a task runs atomically between two of them)",
    "testing/synctest's fake clock and quiescence detection are correct",
    "a clean batch is evidence, not proof: coverage is what the counters say",
]
RULES = {}

if __name__ == "__main__":
    main()
