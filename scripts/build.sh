#!/bin/bash
# Build pipeline (DESIGN.md 2.1): scratch copy of /repo's working tree -> simrewrite ->
# harness test binary. Usage: build.sh <scratch-dir> [race]
# Exit 2 on any trouble (never a VIOLATION).
set -u
SCRATCH="$1"; MODE="${2:-plain}"
VERIF="$(cd "$(dirname "$0")/.." && pwd)"
REPO="${VERIF_REPO:-/repo}"
export GOFLAGS=-mod=mod GOPROXY=off GOSUMDB=off GOTOOLCHAIN=local
export GOCACHE="${VERIF_GOCACHE:-$VERIF/.cache/go-build}"
GO=go1.26.8
die() { echo "BUILD-TROUBLE: $*" >&2; exit 2; }

mkdir -p "$SCRATCH" "$VERIF/bin" "$GOCACHE" || die "mkdir"
# 0. tools
if [ ! -x "$VERIF/bin/simrewrite" ] || [ -n "$(find "$VERIF/sim/rewrite" -newer "$VERIF/bin/simrewrite" -name '*.go' 2>/dev/null)" ]; then
  (cd "$VERIF/sim/rewrite" && $GO build -o "$VERIF/bin/simrewrite" .) || die "building simrewrite"
fi
# 1. scratch copies (no tests, no vcs)
rm -rf "$SCRATCH/repo" "$SCRATCH/go-health" "$SCRATCH/h"
mkdir -p "$SCRATCH/repo" "$SCRATCH/go-health" "$SCRATCH/h"
rsync -a --exclude '*_test.go' "$REPO/go.mod" "$REPO/go.sum" "$SCRATCH/repo/" || die "rsync go.mod"
rsync -a --exclude '*_test.go' "$REPO/src" "$SCRATCH/repo/" || die "rsync src"
GH="$(go env GOMODCACHE)/github.com/f1bonacc1/go-health/v2@v2.1.4"
[ -d "$GH" ] || die "go-health not in module cache"
rsync -a --chmod=u+w --exclude '*_test.go' --exclude examples --exclude fakes "$GH/" "$SCRATCH/go-health/" || die "rsync go-health"
# (debugging aid: VERIF_GH_SED is a sed script applied to the copy of go-health's health.go)
if [ -n "${VERIF_GH_SED:-}" ]; then sed -i "$VERIF_GH_SED" "$SCRATCH/go-health/health.go" || die "VERIF_GH_SED"; fi
# 2. instrument
PATH="/opt/veriftools/go1.26.8/bin:$PATH" "$VERIF/bin/simrewrite" -repo "$SCRATCH/repo" -health "$SCRATCH/go-health" -sites "$SCRATCH/sites.json" || die "simrewrite failed"
# 2a. export shim: lets the harness run the binary's headless entry point (signal handler + Run)
cat > "$SCRATCH/repo/src/cmd/zz_verif_export.go" <<EOM
package cmd

import "github.com/f1bonacc1/process-compose/src/app"

// VerifRunHeadless exposes runHeadless to the simulation harness (scratch copy only).
func VerifRunHeadless(p *app.ProjectRunner) error { return runHeadless(p) }

// VerifRunProject exposes runProject - what "up" does after it has built the runner - without a
// TUI and with or without --keep-project.
func VerifRunProject(p *app.ProjectRunner, keep bool) error {
	*pcFlags.IsTuiEnabled = false
	*pcFlags.KeepProjectOn = keep
	*pcFlags.UnixSocketPath = ""
	return runProject(p)
}
EOM
cat > "$SCRATCH/repo/src/client/zz_verif_export.go" <<EOM
package client

import "net/http"

// VerifNewClient builds the bundled REST client over a transport the harness owns (scratch copy only).
// It is the client NewTcpClient builds - whatever that constructor configures stays in force -
// with the transport replaced.
func VerifNewClient(rt http.RoundTripper, logLength int) *PcClient {
	c := NewTcpClient("sim", 80, logLength)
	c.client.Transport = rt
	return c
}
EOM
# the scratch repo must see the rt module (the rewritten files import it)
cat >> "$SCRATCH/repo/go.mod" <<EOM

require verifrt v0.0.0
replace verifrt => $VERIF/sim/rt
replace github.com/InVisionApp/go-health/v2 => $SCRATCH/go-health
EOM
sed -i '/^replace github.com\/InVisionApp\/go-health\/v2 => github.com/d' "$SCRATCH/repo/go.mod"
sed -i 's/^go 1\.[0-9.]*$/go 1.22/' "$SCRATCH/go-health/go.mod"
cat >> "$SCRATCH/go-health/go.mod" <<EOM

require verifrt v0.0.0
replace verifrt => $VERIF/sim/rt
EOM
# 2b. determinism lint on the instrumented packages
for d in app pclog api client health; do
  if grep -nE '^\s*(go |select \{)' "$SCRATCH/repo/src/$d"/*.go | grep -v '^\S*://' ; then die "un-rewritten go/select statement in src/$d"; fi
done
# 3. harness module
cp "$VERIF"/sim/harness/*.go "$SCRATCH/h/" || die "copy harness"
{
  echo "module verifsim"; echo; echo "go 1.26.8"; echo
  # copy the require blocks of the repo verbatim (offline MVS needs the exact versions)
  awk '/^require \(/{p=1} p{print} /^\)/{p=0}' "$REPO/go.mod"
  echo 'require ('
  echo '  github.com/f1bonacc1/process-compose v0.0.0'
  echo '  verifrt v0.0.0'
  echo '  github.com/anishathalye/porcupine v1.3.0'
  echo ')'
  echo "replace github.com/f1bonacc1/process-compose => $SCRATCH/repo"
  echo "replace github.com/InVisionApp/go-health/v2 => $SCRATCH/go-health"
  echo "replace verifrt => $VERIF/sim/rt"
  grep '^replace github.com/cakturk' "$REPO/go.mod"
} > "$SCRATCH/h/go.mod"
cat "$REPO/go.sum" > "$SCRATCH/h/go.sum"
RACE=""; [ "$MODE" = race ] && RACE="-race"
(cd "$SCRATCH/h" && $GO test -c -vet=off -tags verif -trimpath $RACE -o "$SCRATCH/sim.test" . ) || die "harness build failed"
echo "BUILD-OK $SCRATCH/sim.test"
