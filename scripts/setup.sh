#!/bin/bash
# Build the framework from files on disk only (offline): the rewriter and a warm build
# cache / harness binary for the current tree.
set -u
cd "$(dirname "$0")/.." || exit 2
export GOFLAGS=-mod=mod GOPROXY=off GOSUMDB=off GOTOOLCHAIN=local
mkdir -p bin .cache/go-build evidence replays
(cd sim/rewrite && GOCACHE="$PWD/../../.cache/go-build" go1.26.8 build -o ../../bin/simrewrite .) || { echo "setup: building simrewrite failed"; exit 2; }
python3 - <<'PY' || exit 2
import sys, os
sys.path.insert(0, "driver")
import driver
driver.build(False)
if os.environ.get("VERIF_SETUP_RACE", "1") == "1":
    driver.build(True)
PY
echo "setup ok"
